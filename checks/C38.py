"""C38 — coordinator views stay in sync with the replicated state and are not reverted."""
import json
import os
import subprocess

from checks import raft_common as R
from checks.C36 import run_parallel
from vplib import coqtools, harness
from vplib.common import VERIF, REPO

META = {
    "technique": "Coq proof over a model of sync_from_raft (in-sync invariant preserved when every primitive change is replicated; "
                 "sync is then the identity; any unreplicated kind of change is reverted) + translator tie listing which ClusterCommands "
                 "each API handler / coordinator method / health-loop branch sends + differential runs of the real Coordinator behind the "
                 "real API filters on a single-node in-process Raft",
    "design_ref": "DESIGN.md §7 C38",
    "level_text": "proof (partial)",
    "level_note": "Proved (Raft/Props.v C38_*): sync_from_raft's merge rules keep an in-sync view unchanged; replicating every primitive "
                  "change keeps view and replicated state in sync from the empty coordinator on; a change of each of the 9 kinds that is not "
                  "replicated is reverted. The table 'operation -> kinds of change it makes' (Sync.op_deltas) is hand-written from "
                  "coordinator.rs; 'operation -> commands it sends' is regenerated from the source on every run; 8 operations change "
                  "something they do not replicate (8 known findings, re-confirmed against the real code when a history reaches them). Tested, not proved: "
                  "model sync = Coordinator::sync_from_raft on every step of the generated histories; follower = a second Coordinator "
                  "reading the same replicated state (a caught-up follower), 3-node propagation is C37's. The health loop is a closure in "
                  "varpulis-cli main.rs: the harness runs a statement-for-statement copy whose call sequence the translator asserts.",
}

# op of the harness -> operation kind of Raft/Sync.v
KIND = {"register": "register", "deregister": "deregister", "deploy": "deploy", "teardown": "teardown", "migrate": "manual_migrate",
        "rebalance": "api_rebalance", "drain": "drain", "failover": "failover", "heartbeat": "recovery",
        "connector_create": "connector_create", "connector_update": "connector_update", "connector_delete": "connector_delete",
        "set_policy": "set_scaling_policy", "tick": "auto_rebalance"}
KNOWN = ["deploy", "teardown", "manual_migrate", "api_rebalance", "drain", "failover", "auto_rebalance", "recovery"]


def cls(kind):
    return kind.replace("_", "-") + "-not-replicated"


# ------------------------------------------------------------------ generation
def gen_history(rng, n):
    workers, groups, conns = [], {}, []
    ops = [("register", "w1"), ("register", "w2")]
    workers = ["w1", "w2"]
    failed = set()
    gi = 0
    while len(ops) < n:
        k = rng.below(20)
        if k == 0 and len(workers) < 4:
            w = "w%d" % (len(workers) + 1 + rng.below(2))
            if w not in workers:
                workers.append(w)
                ops.append(("register", w))
        elif k <= 4 and len(groups) < 2:
            gi += 1
            g = "g%d" % gi
            groups[g] = ["p%d" % (j + 1) for j in range(rng.range(1, 3))]
            ops.append(("deploy", g, groups[g]))
        elif k == 5 and groups:
            g = rng.choice(sorted(groups))
            ops.append(("teardown", g))
            del groups[g]
        elif k in (6, 7) and groups and len(workers) >= 2:
            g = rng.choice(sorted(groups))
            ops.append(("migrate", g, rng.choice(groups[g]), rng.choice(workers)))
        elif k == 8:
            ops.append(("rebalance",))
        elif k == 9 and len(workers) >= 3:
            w = workers.pop(rng.below(len(workers)))
            ops.append(("drain", w))
        elif k in (10, 11) and workers:
            w = rng.choice(workers)
            failed.add(w)
            ops.append(("failover", w))
        elif k in (12, 13) and workers:
            w = rng.choice(sorted(failed) or workers)
            failed.discard(w)
            ops.append(("heartbeat", w))
        elif k == 14:
            c = "c%d" % rng.range(1, 2)
            if c in conns:
                ops.append(rng.choice([("connector_update", c), ("connector_delete", c)]))
                if ops[-1][0] == "connector_delete":
                    conns.remove(c)
            else:
                conns.append(c)
                ops.append(("connector_create", c))
        elif k == 15:
            ops.append(("set_policy",))
        elif k == 16 and len(workers) >= 2:
            w = workers.pop(rng.below(len(workers)))
            ops.append(("deregister", w))
        elif k >= 17:
            ops.append(("tick",))
    return ops


CORPUS = [
    [("register", "w1"), ("register", "w2"), ("deploy", "g1", ["p1", "p2"])],
    [("register", "w1"), ("register", "w2"), ("deploy", "g1", ["p1"]), ("tick",), ("migrate", "g1", "p1", "w2")],
    [("register", "w1"), ("register", "w2"), ("deploy", "g1", ["p1", "p2"]), ("failover", "w1"), ("heartbeat", "w1")],
    [("register", "w1"), ("register", "w2"), ("register", "w3"), ("deploy", "g1", ["p1", "p2", "p3"]), ("drain", "w2")],
    [("register", "w1"), ("set_policy",), ("tick",)],
    [("register", "w1"), ("register", "w2"), ("deploy", "g1", ["p1", "p2", "p3", "p4"]), ("register", "w3"), ("tick",), ("rebalance",), ("teardown", "g1")],
    [("register", "w1"), ("connector_create", "c1"), ("connector_update", "c1"), ("deregister", "w1"), ("connector_delete", "c1")],
]


# ------------------------------------------------------------------ model literals (strings interned per run)
class Intern:
    def __init__(self):
        self.m = {"id": 0, "status": 1, "ready": 2, "unhealthy": 20, "draining": 21, "registering": 22}
        self.next = 100

    def __call__(self, s):
        if s not in self.m:
            self.m[s] = self.next
            self.next += 1
        return self.m[s]


def g_json(j, it):
    if j is None:
        return "JNull"
    if isinstance(j, bool):
        return "(JBool %s)" % ("true" if j else "false")
    if isinstance(j, int):
        return "(JNum (%d))" % j
    if isinstance(j, float):
        return "(JNum (%d))" % int(j)
    if isinstance(j, str):
        return "(JStr %d%%N)" % it(j)
    if isinstance(j, list):
        return "(JArr [%s])" % "; ".join(g_json(x, it) for x in j)
    return "(JObj [%s])" % "; ".join("(%d%%N, %s)" % (it(k), g_json(v, it)) for k, v in j.items())


def g_strs(l, it):
    return "[%s]" % "; ".join("%d%%N" % it(x) for x in l)


def g_cstate(st, it):
    ws = "; ".join("(%d%%N, {| w_id := %d%%N; w_address := %d%%N; w_api_key := %d%%N; w_status := %d%%N; w_cpu_cores := %d; "
                   "w_pipelines_running := %d; w_max_pipelines := %d; w_assigned := %s; w_events := %d |})" % (
                       it(k), it(w["id"]), it(w["address"]), it(w["api_key"]), it(w["status"]), w["cpu_cores"], w["pipelines_running"],
                       w["max_pipelines"], g_strs(w["assigned_pipelines"], it), w["events_processed"]) for k, w in st["workers"].items())
    gs = "; ".join("(%d%%N, %s)" % (it(k), g_json(v, it)) for k, v in st["pipeline_groups"].items())
    cs = "; ".join("(%d%%N, {| cn_name := %d%%N; cn_type := %d%%N; cn_params := [%s]; cn_desc := %s |})" % (
        it(k), it(c["name"]), it(c["connector_type"]), "; ".join("(%d%%N, %d%%N)" % (it(a), it(b)) for a, b in c["params"].items()),
        "None" if c.get("description") is None else "(Some %d%%N)" % it(c["description"])) for k, c in st["connectors"].items())
    ms = "; ".join("(%d%%N, %s)" % (it(k), g_json(v, it)) for k, v in st["active_migrations"].items())
    pol = "None" if st["scaling_policy"] is None else "(Some %s)" % g_json(st["scaling_policy"], it)
    return ("{| workers := [%s]; pipeline_groups := [%s]; connectors := [%s]; active_migrations := [%s]; scaling_policy := %s; models := [] |}"
            % (ws, gs, cs, ms, pol))


STATUS = {"ready": "SReady", "unhealthy": "SUnhealthy", "draining": "SDraining", "registering": "SRegistering"}


def g_view(v, it):
    ws = "; ".join("(%d%%N, {| vw_status := %s; vw_assigned := %s |})" % (it(k), STATUS[w["status"]], g_strs(w["assigned"], it))
                   for k, w in v["workers"].items())
    gs = "; ".join("(%d%%N, JNull)" % it(k) for k in v["groups"])
    cs = "; ".join("(%d%%N, {| cn_name := %d%%N; cn_type := %d%%N; cn_params := []; cn_desc := None |})" % (it(k), it(k), it(c["type"]))
                   for k, c in v["connectors"].items())
    return "{| v_workers := [%s]; v_groups := [%s]; v_connectors := [%s]; v_policy := %s |}" % (ws, gs, cs, "(Some JNull)" if v["policy"] else "None")


def s_view(v, it):
    ws = ";".join("%d:%s/%s" % (k, st, ".".join(str(x) for x in sorted(a))) for k, st, a in
                  sorted((it(k), w["status"], [it(x) for x in w["assigned"]]) for k, w in v["workers"].items()))
    gs = ".".join(str(x) for x in sorted(it(k) for k in v["groups"]))
    cs = ";".join("%d:%d" % p for p in sorted((it(k), it(c["type"])) for k, c in v["connectors"].items()))
    return "W(%s)G(%s)C(%s)P(%d)" % (ws, gs, cs, 1 if v["policy"] else 0)


def diff_views(a, b):
    out = []
    for part in ("workers", "groups", "connectors", "policy"):
        if a[part] != b[part]:
            if isinstance(a[part], dict):
                for k in sorted(set(a[part]) | set(b[part])):
                    if a[part].get(k) != b[part].get(k):
                        out.append("%s[%s]: %s -> %s" % (part, k, json.dumps(a[part].get(k)), json.dumps(b[part].get(k))))
            else:
                out.append("%s: %s -> %s" % (part, a[part], b[part]))
    return "; ".join(out)[:500]


# ------------------------------------------------------------------ check
def check(run):
    run.rule = ("histories of 6-14 operations (register, heartbeat incl. recovery of an unhealthy worker, deregister, deploy, teardown, manual "
                "migrate, API rebalance, drain, failover branch of the health loop, whole health-loop ticks incl. reconcile / auto-rebalance, "
                "connector create/update/delete, scaling-policy set-up) against the real Coordinator behind cluster_routes on a single-node "
                "in-process Raft with fake workers; after EVERY operation: leader view, leader view after sync_from_raft, view of a second "
                "coordinator synced from the same replicated state. non-trivial = history with a deploy and a later placement-changing op; "
                "distinct = distinct op list")
    run.trusted += ["Coq 8.16.1 kernel + vm_compute",
                    "hand-written tables Raft/Sync.v (sync merge rules tied by differential run; op_deltas read off coordinator.rs, not tied)",
                    "translate/replication_points.py (which ClusterCommands each operation's functions construct; health-loop call sequence)",
                    "harness/crates/raft/src/coord.rs: fake worker HTTP server, copy of the health loop, warp::test driving the real API filters",
                    "single-node Raft: replication itself (3 nodes, faults) is C37's"]
    run.assumptions += ["worker metrics (events_processed, pipelines_running) and last_heartbeat are outside the compared view",
                        "the failure branch of the health loop is driven directly: in the real loop sync_from_raft first refreshes the "
                        "last_heartbeat of every worker the replicated state calls ready, so on a Raft coordinator the sweep never times a "
                        "worker out (reported to the C33 owner)"]
    p = subprocess.run(["python3", os.path.join(VERIF, "translate", "replication_points.py")], capture_output=True, text=True,
                       env=dict(os.environ, VERIF_REPO=REPO))
    run.oblige("translate/replication_points.py regenerates Raft/Gen_Replication.v from api.rs / coordinator.rs / cli main.rs (shape assertions)",
               p.returncode == 0, (p.stdout + p.stderr)[-3000:])
    binpath = R.build_all(run, "C38.v", translator=True)
    if binpath is None:
        return
    # the list of operations the regenerated table leaves uncovered, for the evidence
    try:
        unc = coqtools.coq_eval("C38u", "From Coq Require Import String.\nFrom VP Require Import Base.Tactics Base.Render Raft.Model Raft.Sync Raft.Gen_Replication Raft.Props.\nOpen Scope string_scope.\n",
                                ['join "," (map op_name uncovered_ops)'])[0]
        run.extra["uncovered_operations_in_source"] = unc.split(",")
        run.oblige("operations that do not replicate all their changes are exactly the known classes", sorted(unc.split(",")) == sorted(KNOWN), unc)
    except RuntimeError as e:
        run.tie_broken("evaluation of uncovered_ops", str(e))
    rng = run.rng
    n = 10 if run.tier == "quick" else 90
    hists = [list(h) for h in CORPUS] + [gen_history(rng, 6 + i % 9) for i in range(n)]
    answers = run_parallel(binpath, [{"mode": "coord", "ops": [list(o) for o in h]} for h in hists], nproc=6, chunk=4)
    exprs, where = [], []
    seen_fail = set()
    n_fail = 0
    for hi, (h, ans) in enumerate(zip(hists, answers)):
        kinds = [o[0] for o in h]
        nontriv = "deploy" in kinds and any(k in ("migrate", "failover", "rebalance", "drain", "teardown", "tick") for k in kinds[kinds.index("deploy") + 1:])
        run.case(json.dumps(h) if nontriv else None, sample={"ops": h} if hi in (0, len(CORPUS)) else None)
        if "steps" not in ans:
            run.tie_broken("coord harness run", json.dumps(ans)[:600])
            continue
        it = Intern()
        for k, (op, st) in enumerate(zip(h, ans["steps"])):
            run.count("op=" + op[0])
            if st["http"] is not None:
                run.count("http_%sxx" % str(st["http"])[0])
            kind = KIND[op[0]]
            reverted = st["after_sync"] != st["view"]
            lag = st["follower"] != st["view"]
            if reverted or lag:
                n_fail += 1
                run.count("oracle_fail/" + kind)
                what = ("%s: " % op[0]) + ("re-synchronising from the replicated state reverts it (%s)" % diff_views(st["view"], st["after_sync"]) if reverted
                                           else "a follower's view differs from the leader's (%s)" % diff_views(st["view"], st["follower"]))
                key = (kind, reverted)
                if key not in seen_fail or kind not in KNOWN:
                    seen_fail.add(key)
                    run.violation(what, {"ops": h[:k + 1], "step": k, "leader_view": st["view"], "after_sync": st["after_sync"], "follower": st["follower"],
                                         "contradicts": "C38 (Raft/Props.v C38_no_revert needs every change replicated; Known_C38_not_replicated)"},
                                  classes=[cls(kind)])
            exprs.append("sync_case %s %s" % (g_cstate(st["replicated"], it), g_view(st["view"], it)))
            where.append((hi, k, s_view(st["after_sync"], it)))
    model = R.model_eval(run, "C38", exprs)
    n_corr = 0
    for (hi, k, si), sm in zip(where, model):
        if sm is not None and si != sm:
            n_corr += 1
            if n_corr <= 3:
                run.tie_broken("Raft/Sync.v sync vs Coordinator::sync_from_raft (history %d step %d %s)" % (hi, k, hists[hi][k]),
                               "impl  %s\nmodel %s" % (si[:1000], sm[:1000]))
    run.extra["oracle_failures"] = n_fail
    run.extra["disagreements"] = n_corr
    run.extra["model_compared"] = len(exprs)


def replay(run, path):
    r = json.load(open(path))["replay"]
    ok, bindir, lg = harness.build("vp-raft")
    binpath = os.path.join(bindir, "vp-raft")
    ans = harness.run_jsonl(binpath, [{"mode": "coord", "ops": r["ops"]}], (), 900)[0]
    run.case(("replay",), {"ops": r["ops"]})
    st = ans["steps"][-1]
    op = r["ops"][-1]
    if st["after_sync"] != st["view"] or st["follower"] != st["view"]:
        run.violation("%s: view %s, after sync %s, follower %s" % (op[0], json.dumps(st["view"])[:200], json.dumps(st["after_sync"])[:200],
                                                                  json.dumps(st["follower"])[:200]), r, classes=[cls(KIND[op[0]])])
