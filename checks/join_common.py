"""Shared machinery for C15 (crates/varpulis-runtime/src/join.rs, JoinBuffer).

Case (python side):
  {"sources": [name ids], "keys": {source: key field id}, "window": ms, "cap": None | n,
   "ops": [(source, event type, timestamp ms, [(field id, value id), ..]), ..], "kind": "inorder" | "ooo" | ..}
Names: id n < 100 is "S<n>", otherwise "T<n-100>"; fields "f<i>"; values "v<i>" (all Value::Str, so the partition
key of a value is injective).  Field 9 carries a unique value per event (its identity).
"""
import json
import os

from vplib import coqtools, harness

IMPORTS = ("From Coq Require Import ZArith NArith String List.\nFrom VP Require Import Base.Render Join.Model Join.Spec Join.Run.\n"
           "Import ListNotations.\nOpen Scope string_scope.\n")
IDF = 9


def name(n):
    return "S%d" % n if n < 100 else "T%d" % (n - 100)


def name_id(s):
    return int(s[1:]) + (0 if s[0] == "S" else 100)


# ------------------------------------------------------------------ rendering
def j_case(c):
    return {"sources": [name(s) for s in c["sources"]],
            "keys": [[name(s), "f%d" % f] for s, f in sorted(c["keys"].items())],
            "window_ms": c["window"], "cap": c["cap"],
            "ops": [{"src": name(s), "type": name(ty), "ts_ms": ts, "fields": [["f%d" % f, {"s": "v%d" % v}] for f, v in fields]}
                    for s, ty, ts, fields in c["ops"]]}


def g_case(c):
    cfg = "{| sources := [%s]; join_keys := [%s]; window := (%d)%%Z; cap := %d%%nat |}" % (
        "; ".join("%d%%N" % s for s in c["sources"]),
        "; ".join("(%d%%N, %d%%N)" % (s, f) for s, f in sorted(c["keys"].items())),
        c["window"], 1000 if c["cap"] is None else c["cap"])
    evs = "; ".join("(%d%%N, {| jid := %d%%N; jty := %d%%N; jts := (%d)%%Z; jfields := [%s] |})" % (
        s, i, ty, ts, "; ".join("(%d%%N, %d%%N)" % fv for fv in fields)) for i, (s, ty, ts, fields) in enumerate(c["ops"]))
    return "join_case %s [%s]" % (cfg, evs)


def impl_str(ans):
    """canonical string of the implementation's answer, same format as the first half of Join/Run.v join_case"""
    if "panic" in ans:
        return "PANIC"
    parts = []
    for o, tot in zip(ans["outs"], ans["totals"]):
        parts.append(out_str(o) + "#%d" % tot)
    return ";".join(parts)


def out_str(o):
    if o is None:
        return "-"
    fs = []
    for k, v in o["fields"]:
        if "." in k:
            p, f = k.split(".")
            ks = "%d.%d" % (name_id(p), int(f[1:]))
        else:
            ks = "%d" % int(k[1:])
        fs.append("%s=%d" % (ks, int(v["s"][1:])))
    return "%d:%s" % (o["ts_ms"], ",".join(fs))


# ------------------------------------------------------------------ oracle: the property text, by brute force
def key_of(c, op):
    kf = c["keys"].get(op[0])
    if kf is None:
        return None
    return dict(op[3]).get(kf)


def expected(c):
    """per arrival: None (no output) or {source: index of the op whose fields the output must carry}"""
    W = c["window"]
    res = []
    for i, op in enumerate(c["ops"]):
        k = key_of(c, op)
        if k is None or op[0] not in c["sources"]:
            res.append(None)
            continue
        t = op[2]
        chosen = {}
        for s in c["sources"]:
            best = None
            for j in range(i, -1, -1):              # most recently arrived first, the arriving event included
                o = c["ops"][j]
                if o[0] == s and key_of(c, o) == k and o[2] >= t - W:
                    best = j
                    break
            if best is None:
                chosen = None
                break
            chosen[s] = best
        res.append(chosen)
    return res


def judge_cat(c, ans):
    """compares the implementation's outputs with the property text; returns [(category, message)] with category
    "missing" (no output although specified), "spurious" (output although not specified), "fields" (wrong events)"""
    if "panic" in ans:
        return [("panic", "implementation panicked: " + ans["panic"])]
    msgs = []
    exp = expected(c)
    for i, (e, o) in enumerate(zip(exp, ans["outs"])):
        op = c["ops"][i]
        what = "arrival %d (%s key v%s t=%d)" % (i, name(op[0]), key_of(c, op), op[2])
        if e is None and o is not None:
            msgs.append(("spurious", "%s: a joined output was produced although not every source has a same-key event within the window" % what))
        elif e is not None and o is None:
            msgs.append(("missing", "%s: no joined output although every source has a same-key event within the window (arrivals %s)" % (what, sorted(e.values()))))
        elif e is not None:
            got = {k: v for k, v in o["fields"]}
            for s, j in e.items():
                for f, v in c["ops"][j][3]:
                    g = got.get("%s.f%d" % (name(s), f))
                    if g != {"s": "v%d" % v}:
                        msgs.append(("fields", "%s: field %s.f%d is %s, but the most recently arrived in-window event of %s is arrival %d with v%d" % (
                            what, name(s), f, json.dumps(g), name(s), j, v)))
                        break
    return msgs


def judge(c, ans):
    return [m for _, m in judge_cat(c, ans)]


def is_sorted(c):
    ts = [op[2] for op in c["ops"]]
    return all(a <= b for a, b in zip(ts, ts[1:]))


# ------------------------------------------------------------------ generation
def gen_case(rng, kind=None, maxlen=14):
    nsrc = 2 if rng.chance(2, 3) else 3
    sources = list(range(nsrc))
    keys = {s: (0 if rng.chance(3, 4) else 1) for s in sources}
    tick = rng.choice([1, 1, 20, 100, 100, 1000, 5000])
    W = tick * rng.range(1, 5)
    cap = rng.choice([None, None, 1, 2, 3])
    kind = kind or rng.choice(["inorder", "inorder", "ooo", "ooo_light"])
    nkeys = rng.range(1, 3)
    n = rng.range(2, maxlen)
    types = {s: (s if rng.chance(1, 2) else 100 + s) for s in sources}
    if rng.chance(1, 8):
        types[1] = 0 if rng.chance(1, 2) else 100       # an event type named like another source / shared type name
    ops = []
    t = 0
    for i in range(n):
        # time steps: zero (ties), small, about a window, beyond a window, beyond the gc interval
        step = rng.choice([0, 0, 1, max(1, W // 4), max(1, W // 2), W, W + 1, 2 * W + 3, max(1, W // 10), 11, 1001])
        t += step
        ts = t
        if kind == "ooo" and rng.chance(1, 2):
            ts = t - rng.choice([1, W // 2 + 1, W, W + 1, 2 * W, 3 * W + 7])
        elif kind == "ooo_light" and rng.chance(1, 5):
            ts = t - rng.choice([1, max(1, W // 3), W])
        s = rng.choice(sources)
        fields = []
        for f in (0, 1, 2):
            if f in (0, 1):
                if rng.chance(1, 14):
                    continue                                # missing (possibly the key field)
                fields.append((f, rng.below(nkeys)))
            elif rng.chance(2, 3):
                fields.append((f, 10 + rng.below(5)))
        fields.append((IDF, 1000 + i))
        if rng.chance(1, 3):
            fields = rng.shuffle(fields)
        ops.append((s, types[s], ts, fields))
    return {"sources": sources, "keys": keys, "window": W, "cap": cap, "ops": ops, "kind": kind}


def mk(sources, keys, W, cap, ops, kind):
    """ops: (source, ts, key value) -> full ops with identity field; event type = source name"""
    return {"sources": sources, "keys": keys, "window": W, "cap": cap, "kind": kind,
            "ops": [(s, s, ts, [(0, k), (IDF, 1000 + i)]) for i, (s, ts, k) in enumerate(ops)]}


def witnesses():
    """the three out-of-order mechanisms of DESIGN.md §7 C15 (window 100 ms, gc interval 10 ms)"""
    k2 = {0: 0, 1: 0}
    return {
        # (i) a late large timestamp runs the GC, which deletes an event still inside the window of a later-arriving older event
        "gc_ahead": mk([0, 1], k2, 100, None, [(0, 0, 0), (1, 500, 1), (1, 50, 0)], "witness"),
        # (ii) partition_point on an unsorted buffer drains an in-window event
        "binary_search_unsorted": mk([0, 1], k2, 100, None, [(0, 300, 0), (0, 100, 0), (0, 100, 0), (1, 350, 0)], "witness"),
        # (iii) the cap evicts the only in-window event while the newer arrival is out of window
        "cap_evicts_in_window": mk([0, 1], k2, 100, 1, [(0, 300, 0), (0, 100, 0), (1, 300, 0)], "witness"),
    }


def exhaustive_small(W=2, cap=None, nev=4, steps=(0, 1, 3)):
    """every in-order 2-source single-key history of `nev` arrivals with the given time steps"""
    import itertools
    out = []
    for srcs in itertools.product((0, 1), repeat=nev):
        for st in itertools.product(steps, repeat=nev - 1):
            t = 0
            ops = [(srcs[0], 0, 0)]
            for s, d in zip(srcs[1:], st):
                t += d
                ops.append((s, t, 0))
            out.append(mk([0, 1], {0: 0, 1: 0}, W, cap, ops, "exhaustive"))
    return out


# ------------------------------------------------------------------ Engine path (join programs)
ENGINE_WINDOWS = [("100ms", 100), ("500ms", 500), ("2s", 2000), ("1m", 60000), ("", 60000)]      # "" = no .window(): the engine defaults to 1 minute


def gen_engine_case(rng, maxlen=12):
    """a case in the shape of gen_case, restricted to what a VPL join program expresses: every source S<i> is a
    stream over event type T<i>, all sources keyed on f0, default cap"""
    nsrc = 2 if rng.chance(2, 3) else 3
    wname, W = rng.choice(ENGINE_WINDOWS)
    kind = rng.choice(["inorder", "inorder", "inorder", "ooo"])
    nkeys = rng.range(1, 3)
    ops = []
    t = 0
    for i in range(rng.range(2, maxlen)):
        t += rng.choice([0, 0, 1, max(1, W // 4), max(1, W // 2), W, W + 1, 2 * W + 3, max(1, W // 10), 11, 1001])
        ts = t
        if kind == "ooo" and rng.chance(1, 2):
            ts = t - rng.choice([1, W // 2 + 1, W, W + 1, 2 * W])
        s = rng.below(nsrc)
        fields = [] if rng.chance(1, 14) else [(0, rng.below(nkeys))]
        if rng.chance(2, 3):
            fields.append((2, 10 + rng.below(5)))
        fields.append((IDF, 1000 + i))
        ops.append((s, 100 + s, ts, fields))
    return {"sources": list(range(nsrc)), "keys": {s: 0 for s in range(nsrc)}, "window": W, "wname": wname, "cap": None, "ops": ops, "kind": kind}


def engine_program(c):
    n = len(c["sources"])
    lines = ["stream S%d = T%d" % (i, i) for i in range(n)]
    on = " and ".join("S%d.f0 == S%d.f0" % (i, i + 1) for i in range(n - 1))
    emit = ", ".join("id%d: S%d.f%d" % (i, i, IDF) for i in range(n))
    win = "\n    .window(%s)" % c["wname"] if c["wname"] else ""
    lines.append("stream J = join(%s)\n    .on(%s)%s\n    .emit(%s)" % (", ".join("S%d" % i for i in range(n)), on, win, emit))
    return "\n".join(lines) + "\n"


def j_engine(c):
    return {"program": engine_program(c),
            "events": [{"type": name(ty), "ts_ms": ts, "fields": [["f%d" % f, {"s": "v%d" % v}] for f, v in fields]} for s, ty, ts, fields in c["ops"]]}


def engine_choice(c, ans):
    """per arrival: None | {source: chosen op index} | ('bad', text), read from the id<i> fields of the emitted events"""
    if "error" in ans or "panic" in ans:
        return None
    res = []
    for outs in ans["outs"]:
        if not outs:
            res.append(None)
        elif len(outs) != 1 or "error" in outs[0]:
            res.append(("bad", json.dumps(outs)[:200]))
        else:
            d = {k: v for k, v in outs[0]["fields"]}
            ch = {}
            for s in c["sources"]:
                v = d.get("id%d" % s)
                ch[s] = int(v["s"][1:]) - 1000 if isinstance(v, dict) and "s" in v else ("bad", json.dumps(v))
            res.append(ch)
    return res


def judge_engine_cat(c, ans):
    if "error" in ans or "panic" in ans:
        return [("panic", "engine: " + json.dumps(ans)[:300])]
    msgs = []
    got = engine_choice(c, ans)
    for i, (e, g) in enumerate(zip(expected(c), got)):
        op = c["ops"][i]
        what = "arrival %d (%s key v%s t=%d)" % (i, name(op[0]), key_of(c, op), op[2])
        if e is None and g is not None:
            msgs.append(("spurious", "%s: the join program emitted %s although not every source has a same-key event within the window" % (what, g)))
        elif e is not None and g is None:
            msgs.append(("missing", "%s: the join program emitted nothing although every source has a same-key event within the window (arrivals %s)" % (what, sorted(e.values()))))
        elif e is not None and g != e:
            msgs.append(("fields", "%s: the join program's output carries arrivals %s, the most recently arrived in-window events are %s" % (what, g, e)))
    return msgs


def judge_engine(c, ans):
    return [m for _, m in judge_engine_cat(c, ans)]


def model_choice(c, mrun):
    """the chosen arrivals per source read from the model's rendered outputs ("<src>.9=<id>")"""
    res = []
    for part in mrun.split(";"):
        o = part.split("#")[0]
        if o == "-":
            res.append(None)
            continue
        d = dict(kv.split("=") for kv in o.split(":", 1)[1].split(","))
        res.append({s: int(d["%d.%d" % (s, IDF)]) - 1000 for s in c["sources"]})
    return res


def gen_pp(rng):
    n = rng.choice([0, 1, 2, 3, 4, 5, 6, 7, 8, 9, 12, 16, 17, 31])
    ts = [rng.below(6) for _ in range(n)]
    if rng.chance(1, 3):
        ts = sorted(ts)
    return ts, rng.below(7)


# ------------------------------------------------------------------ running
def build_all(run, targets, audit_file, allow=()):
    coqtools.prove(run, targets, audit_file, allow)
    okb, bindir, blog = harness.build("vp-join")
    if not okb:
        run.tie_broken("harness build vp-join", blog[-3000:])
        return None
    return os.path.join(bindir, "vp-join")


def shrink(c, still_fails):
    cur = c
    changed = True
    while changed:
        changed = False
        for i in range(len(cur["ops"]) - 1, -1, -1):
            cand = dict(cur)
            cand["ops"] = cur["ops"][:i] + cur["ops"][i + 1:]
            if cand["ops"] and still_fails(cand):
                cur = cand
                changed = True
                break
    return cur


def case_json(c):
    return {"sources": c["sources"], "keys": [[s, f] for s, f in sorted(c["keys"].items())], "window": c["window"], "cap": c["cap"],
            "ops": [[s, ty, ts, [list(fv) for fv in fields]] for s, ty, ts, fields in c["ops"]], "kind": c.get("kind", "")}


def case_from_json(j):
    return {"sources": j["sources"], "keys": {s: f for s, f in j["keys"]}, "window": j["window"], "cap": j["cap"], "kind": j.get("kind", ""),
            "ops": [(s, ty, ts, [tuple(fv) for fv in fields]) for s, ty, ts, fields in j["ops"]]}
