"""C32 — coordinator bookkeeping stays consistent under any interleaving."""
import json
import os

from checks import coord_common as C
from vplib import harness

META = {
    "technique": "Coq proof (invariant by induction over arbitrary operation sequences, plan and commit phases as separate steps) "
                 "+ model/implementation differential on the real Coordinator driven in-process, state compared after every step",
    "design_ref": "DESIGN.md §7 C32, §12 Coord",
    "level_text": "Coq theorem: the bookkeeping invariant holds after every history (plan and commit phases as separate steps, all outcomes, all HashMap orders) outside three recorded finding classes; no axioms. Model tied to coordinator.rs / api.rs by a differential run on the real Coordinator (direct calls and REST handlers) on every check",
    "level_note": "Theorems are about coq/theories/Coord/Model.v (hand-written model of coordinator.rs plan_*/commit_*, register/deregister/heartbeat, "
                  "health sweep, migrate_pipeline, handle_worker_failure, drain_worker, rebalance) tied to the code by the differential run; "
                  "HashMap iteration orders and HTTP outcomes are inputs of the model (observed from the implementation / scripted) and the theorems quantify over all of them. "
                  "Assumed (hypotheses of the theorem, also generator restrictions for the count oracle): heartbeats report the coordinator's own count, "
                  "a registering worker reports 0 running pipelines, a group spec has distinct pipeline names. "
                  "Not modelled: deploy_group (monolithic, unused by the API), reconcile_placements, Raft replication, NATS transport, drain timeout.",
}

KNOWN = ("reregister-live-worker", "deregister-live-worker", "drain-force-deregister")

# histories the property text and DESIGN.md name; each is run on every check (regression corpus)
CORPUS = [
    # two migrations of the same pipeline planned concurrently, both committed (stale second commit)
    (5, [["register", 1, 4, 10, 0], ["register", 2, 4, 10, 0], ["register", 3, 4, 10, 0], ["plan_deploy", [[1, 1, 1]]], ["commit_deploy", 0, [True]],
         ["plan_migrate", 16, 0, 2], ["plan_migrate", 16, 0, 3], ["commit_migrate", 1, True], ["commit_migrate", 2, True]]),
    # migration committed after the group was torn down
    (5, [["register", 1, 4, 10, 0], ["register", 2, 4, 10, 0], ["plan_deploy", [[1, 1, 1]]], ["commit_deploy", 0, [True]],
         ["plan_migrate", 16, 0, 2], ["plan_teardown", 0], ["commit_teardown", 2], ["commit_migrate", 1, True]]),
    # teardown planned, pipeline migrated, teardown committed with the stale task list
    (5, [["register", 1, 4, 10, 0], ["register", 2, 4, 10, 0], ["plan_deploy", [[1, 1, 1]]], ["commit_deploy", 0, [True]],
         ["plan_teardown", 0], ["migrate", 16, 0, 2, True], ["commit_teardown", 1]]),
    # deploy committed after its worker deregistered
    (5, [["register", 1, 4, 10, 0], ["plan_deploy", [[1, None, 1]]], ["deregister", 1], ["commit_deploy", 0, [True]]]),
    # two groups share a pipeline name on one worker; one is torn down
    (5, [["register", 1, 4, 10, 0], ["plan_deploy", [[1, None, 1]]], ["commit_deploy", 0, [True]], ["plan_deploy", [[1, None, 1]]], ["commit_deploy", 1, [True]],
         ["plan_teardown", 0], ["commit_teardown", 2]]),
    # migration onto the worker the pipeline is already on
    (5, [["register", 1, 4, 10, 0], ["plan_deploy", [[1, None, 1]]], ["commit_deploy", 0, [True]], ["migrate", 16, 0, 1, True]]),
    # a failed placement is failed over: the source's count must not drop
    (5, [["register", 1, 4, 10, 0], ["register", 2, 4, 10, 0], ["plan_deploy", [[1, 1, 1], [2, 1, 1]]], ["commit_deploy", 0, [True, False]],
         ["failover", 1, [True, True]]]),
    # failed placement migrated onto its own worker
    (5, [["register", 1, 4, 10, 0], ["plan_deploy", [[1, 1, 1]]], ["commit_deploy", 0, [False]], ["migrate", 16, 0, 1, True]]),
    # two groups share a pipeline name on one worker, one copy Running and one Failed; the Failed copy is migrated away
    # (plan + commit, and the one-step path): the worker must keep listing the Running copy
    (5, [["register", 1, 4, 10, 0], ["register", 2, 4, 10, 0], ["plan_deploy", [[1, 1, 1]]], ["commit_deploy", 0, [True]],
         ["plan_deploy", [[1, 1, 1]]], ["commit_deploy", 1, [False]], ["plan_migrate", 16, 1, 2], ["commit_migrate", 2, True]]),
    (5, [["register", 1, 4, 10, 0], ["register", 2, 4, 10, 0], ["plan_deploy", [[1, 1, 1]]], ["commit_deploy", 0, [True]],
         ["plan_deploy", [[1, 1, 1]]], ["commit_deploy", 1, [False]], ["migrate", 16, 1, 2, True]]),
]

# witnesses of the recorded finding classes (replayed on every run; each must still fail in its class)
KNOWN_WITNESSES = {
    "reregister-live-worker": (5, [["register", 1, 4, 10, 0], ["plan_deploy", [[1, None, 1]]], ["commit_deploy", 0, [True]], ["register", 1, 4, 10, 0]]),
    "deregister-live-worker": (5, [["register", 1, 4, 10, 0], ["plan_deploy", [[1, None, 1]]], ["commit_deploy", 0, [True]], ["deregister", 1]]),
    "drain-force-deregister": (5, [["register", 1, 4, 10, 0], ["register", 2, 4, 10, 0], ["plan_deploy", [[1, 1, 1]]], ["commit_deploy", 0, [True]], ["drain", 1, [False]]]),
}


def shuffles(threads):
    """All interleavings of the given sequences (each keeps its own order)."""
    if all(not t for t in threads):
        yield []
        return
    for i, t in enumerate(threads):
        if t:
            rest = threads[:i] + [t[1:]] + threads[i + 1:]
            for tail in shuffles(rest):
                yield [(i, t[0])] + tail


def interleaving_cases():
    """Bounded exhaustive part of the quantifier: after deploying p1 (pinned to w1) and p2 on 3 workers, four
    concurrent operations -- two manual migrations of p1 (to w2 and to w3), a teardown of the group, a failover of
    w1 -- in every interleaving of their plan / commit phases and with every outcome of the two migrations
    (2520 histories; the quick tier runs a seeded sample of 80)."""
    base = [["register", 1, 4, 10, 0], ["register", 2, 4, 10, 0], ["register", 3, 4, 10, 0],
            ["plan_deploy", [[1, 1, 1], [2, None, 1]]], ["commit_deploy", 0, [True, True]]]
    out = []
    for ok1 in (True, False):
        for ok2 in (True, False):
            threads = [[("plan", ["plan_migrate", 16, 0, 2]), ("commit", ["commit_migrate", None, ok1])],
                       [("plan", ["plan_migrate", 16, 0, 3]), ("commit", ["commit_migrate", None, ok2])],
                       [("plan", ["plan_teardown", 0]), ("commit", ["commit_teardown", None])],
                       [("op", ["failover", 1, [True, True]])]]
            for sh in shuffles(threads):
                ops = list(base)
                slot = {}
                nplans = 1
                for i, (kind, op) in sh:
                    op = list(op)
                    if kind == "plan":
                        slot[i] = nplans
                        nplans += 1
                    elif kind == "commit":
                        op[1] = slot[i]
                    ops.append(op)
                out.append((5, ops))
    return out


def gen_cases(run):
    rng = run.rng
    cases = list(CORPUS) + list(KNOWN_WITNESSES.values())
    inter = interleaving_cases()
    if run.tier == "quick":
        inter = [inter[rng.below(len(inter))] for _ in range(80)]
    cases += inter
    run.extra["exhaustive_interleavings"] = len(inter)
    n = 500 if run.tier == "quick" else 12000
    for i in range(n):
        g = C.Gen(rng.fork(), known_ops=(i % 6 == 5), dishonest=(i % 10 == 9), interleave=(i % 4 != 3), crowded=(i % 5 == 2))
        cases.append((rng.range(2, 6), g.history(rng.range(4, 14))))
    return cases


def check(run):
    run.rule = ("histories of 6-25 coordinator operations (register/deregister/heartbeat/clock/sweep, plan and commit phases of deploy, teardown and "
                "manual migration as separate steps with other operations in between, migrate, failover, drain, rebalance; every worker-call outcome scripted) "
                "over <=3 workers and <=3 groups, plus all 2520 interleavings x outcomes of two migrations, a teardown and a failover of one group (thorough; quick: 80 sampled); non-trivial = history commits a deploy and changes a placement afterwards; distinct = distinct op list")
    run.trusted += ["Coq 8.16.1 kernel + vm_compute",
                    "hand-written model coq/theories/Coord/Model.v tied by differential run (worker table, assigned lists, counts, placements, epochs, group status and every operation result compared after every step)",
                    "HashMap iteration orders of Coordinator.workers / pipeline_groups / placements are read from the implementation and passed to the model as inputs",
                    "Rust harness harness/crates/coord (loopback stub answering the workers' deploy endpoint with scripted outcomes; virtual clock by rewriting the public last_heartbeat field)",
                    "REST mode: the same operations through cluster_routes (warp::test) with RbacConfig::disabled(); sweep / failover / clock act on the shared coordinator directly",
                    "Python driver checks/coord_common.py (generators, invariant oracle)"]
    run.assumptions += ["heartbeats report the coordinator's own running count and registrations report 0 (count part of the oracle is switched off for histories that do otherwise)",
                        "pipeline names inside one group spec are distinct", "usize counters do not overflow"]
    binpath = C.build_all(run, ["theories/Coord/Props.vo", "theories/Coord/Legacy.vo"], "C32.v")
    if binpath is None:
        return
    cases = gen_cases(run)
    answers = C.run_impl(binpath, cases)
    model = C.run_model(run, "C32", cases, answers)
    n_or = n_corr = 0
    seen_known = set()
    for k, ((t, ops), ans, sm) in enumerate(zip(cases, answers, model)):
        si = C.impl_str(ans)
        kinds = C.kinds(ops)
        nontrivial = None
        if "commit_deploy" in kinds and any(x in kinds for x in ("commit_migrate", "migrate", "failover", "drain", "rebalance", "commit_teardown")):
            nontrivial = json.dumps(ops)
        run.case(nontrivial, sample={"timeout": t, "ops": ops, "impl": si[-300:]} if k in (0, len(CORPUS) + 5) else None)
        run.count("len=%d" % (len(ops) // 5 * 5))
        for o in set(kinds):
            run.count("op=" + o)
        if not C.honest(ops):
            run.count("dishonest-count-history")
        fails, classes, at = C.c32_judge(ops, ans)
        if fails:
            run.count("oracle_fail")
            n_or += 1
            hit = run.match_known(classes)
            if hit:
                seen_known.update(hit)
                run.violation(fails[0], {}, classes=classes)
            elif n_or <= 40 and len([v for v in run.violations]) < 3:
                def still(c):
                    a = C.run_impl(binpath, [(t, c)])[0]
                    f, cl, _ = C.c32_judge(c, a)
                    return bool(f) and not run.match_known(cl)
                small = C.shrink_ops(ops, still)
                a = C.run_impl(binpath, [(t, small)])[0]
                f, cl, _ = C.c32_judge(small, a)
                run.violation("; ".join(f)[:600], {"timeout": t, "ops": small, "implementation": [s["res"] + "~" + C.state_str(s["state"]) for s in a.get("steps", [])],
                                                  "contradicts": "C32_invariant in coq/theories/Coord/Props.v"}, classes=cl)
        if sm is not None and si != sm:
            n_corr += 1
            if n_corr <= 3:
                run.tie_broken("correspondence Coord/Model.v vs crates/varpulis-cluster coordinator on %s" % json.dumps(ops), C.first_diff(si, sm))
    # ---- the same kind of histories through the REST handlers of api.rs (every request = plan + execute + commit)
    rng = run.rng
    acases = [(t, C.to_api_ops(ops)) for t, ops in CORPUS if not any(o[0].startswith("commit_") and i and not ops[i - 1][0].startswith("plan_") for i, o in enumerate(ops))]
    for i in range(150 if run.tier == "quick" else 3000):
        g = C.Gen(rng.fork(), known_ops=(i % 6 == 5), dishonest=False, interleave=False)
        acases.append((rng.range(2, 6), C.to_api_ops(g.history(rng.range(4, 12)))))
    aanswers = C.run_impl_api(binpath, acases)
    amodel = C.run_model_api(run, "C32api", acases, aanswers)
    for k, ((t, ops), ans, sm) in enumerate(zip(acases, aanswers, amodel)):
        si = C.impl_str(ans)
        kinds = C.kinds(ops)
        run.case(("api", json.dumps(ops)) if "deploy" in kinds and any(x in kinds for x in ("manual_migrate", "failover", "drain", "rebalance", "teardown")) else None)
        run.count("via=api")
        for o in set(kinds):
            run.count("api-op=" + o)
        fails, classes, at = C.c32_judge(ops, ans)
        if fails:
            n_or += 1
            run.count("oracle_fail")
            if not run.match_known(classes) and len(run.violations) < 3:
                run.violation("; ".join(fails)[:600], {"via": "api", "timeout": t, "ops": ops, "implementation": [s["res"] + "~" + C.state_str(s["state"]) for s in ans.get("steps", [])],
                                                     "contradicts": "C32_consistent_under_any_interleaving in coq/theories/Coord/Props.v"}, classes=classes)
            elif run.match_known(classes):
                run.violation(fails[0], {}, classes=classes)
        if sm is not None and si != sm:
            n_corr += 1
            if n_corr <= 3:
                run.tie_broken("correspondence Coord/Model.v vs crates/varpulis-cluster api.rs handlers on %s" % json.dumps(ops), C.first_diff(si, sm))
    # every recorded class must be re-confirmed by its witness
    for cls, (t, ops) in KNOWN_WITNESSES.items():
        a = C.run_impl(binpath, [(t, ops)])[0]
        f, cl, _ = C.c32_judge(ops, a)
        listed = bool(run.match_known([cls]))
        if listed and not (f and cls in cl):
            run.tie_broken("known finding %s no longer reproduces" % cls, json.dumps(ops))
    run.extra["oracle_failures"] = n_or
    run.extra["disagreements"] = n_corr


def replay(run, path):
    r = json.load(open(path))["replay"]
    ok, bindir, lg = harness.build("vp-coord")
    binpath = os.path.join(bindir, "vp-coord")
    a = (C.run_impl_api if r.get("via") == "api" else C.run_impl)(binpath, [(r["timeout"], r["ops"])])[0]
    f, cl, _ = C.c32_judge(r["ops"], a)
    run.case(("replay",), {"ops": r["ops"]})
    run.case(("replay2",))
    if f:
        run.violation("; ".join(f)[:600], {"timeout": r["timeout"], "ops": r["ops"], "implementation": C.impl_str(a)}, classes=cl)
