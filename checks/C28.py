"""C28 — tenants cannot see or affect each other's pipelines."""
import json
import os

from checks import tenant_common as T
from vplib import coqtools, harness

META = {
    "technique": "Coq proof (non-interference by induction over arbitrary request sequences, for any engine) + translator listing every tenant handler's lookup chain + request sequences over 2-3 tenants through warp::test on the real api_routes with per-tenant state snapshots",
    "design_ref": "DESIGN.md §7 C28, §13 tenant_handlers.py",
    "level_text": "Theorems C28_* in coq/theories/Tenant/Props.v: a request whose key does not resolve to tenant b leaves b's record, the key index and all keys unchanged; its answer and the owner's new record depend on the owner's record only; for every sequence of tenant and admin requests, b's record and b's own answers equal those of the run without the other tenants' requests (purge-style non-interference), for any engine; a pipeline id outside the caller's map is refused and changes none of the caller's pipelines. The handler table (lock, manager calls keyed by the resolved tenant id, pipeline accesses keyed by the path id) is regenerated from api.rs on every run and must equal the table the model stands for",
    "level_note": "By construction close to the definition of with_tenant (key -> tenant id -> that tenant's record): the weight is on the tie. Modelled, not verified: the Rust HashMaps as association lists, UUID ids as request-supplied fresh ids, the engine of the correspondence run (filter pipelines `A.where(x > THR).emit(v: x)`: counters, outputs, reload, checkpoint/restore of the counters). Not modelled: events-per-second limit (never reached in the explored sequences), pagination, persistence (C22), Prometheus metrics shared by all engines, connector-backed pipelines, SSE stream contents (only that the subscription is refused for a foreign id). Isolation of the *implementation* beyond the modelled observables is tested by deep snapshots (complete engine checkpoints, usage incl. window counter) of every non-acting tenant around every request",
}

NSRC = 4            # harness SOURCES: 0,1,2 filter thresholds 0,10,20; 3 does not parse
UNKNOWN_PID = 999


def gen_seq(rng, tier):
    nt = rng.range(2, 3)
    quotas = [rng.range(1, 3) for _ in range(nt)]
    admin = "adm" if rng.chance(4, 5) else None
    ops = []
    ndeploy = 0
    ntenants = nt
    ncp = 0
    n = rng.range(14, 34) if tier == "quick" else rng.range(20, 60)

    def key():
        r = rng.below(20)
        if r == 0:
            return None
        if r == 1:
            return rng.choice(["nope", "key-", "key-00", "KEY-0", ""])      # unknown; prefix / extension / other case of a real key; empty
        return "@t%d" % rng.below(ntenants)

    def pid():
        if ndeploy == 0 or rng.chance(1, 12):
            return UNKNOWN_PID
        return rng.below(ndeploy)

    # start with a few deploys so that there is something to attack
    for t in range(nt):
        ops.append({"op": "deploy", "key": "@t%d" % t, "name": "n%d" % ndeploy, "src": rng.below(3)})
        ndeploy += 1
    while len(ops) < n:
        r = rng.below(100)
        if r < 12:
            ops.append({"op": "deploy", "key": key(), "name": "n%d" % ndeploy, "src": rng.below(NSRC)})
            ndeploy += 1
        elif r < 30:
            ops.append({"op": "inject", "key": key(), "pid": pid(), "ty": rng.choice(["A", "A", "B"]), "x": rng.choice([-5, 0, 1, 5, 10, 11, 15, 20, 21, 50])})
        elif r < 38:
            ops.append({"op": "batch", "key": key(), "pid": pid(),
                        "events": [[rng.choice(["A", "A", "B"]), rng.choice([-1, 3, 11, 25])] for _ in range(rng.range(0, 4))]})
        elif r < 46:
            ops.append({"op": "get", "key": key(), "pid": pid()})
        elif r < 54:
            ops.append({"op": "delete", "key": key(), "pid": pid()})
        elif r < 60:
            ops.append({"op": "metrics", "key": key(), "pid": pid()})
        elif r < 68:
            ops.append({"op": "checkpoint", "key": key(), "pid": pid()})
            ncp += 1
        elif r < 76:
            ops.append({"op": "restore", "key": key(), "pid": pid(), "cp": rng.below(max(1, ncp))})
        elif r < 83:
            ops.append({"op": "reload", "key": key(), "pid": pid(), "src": rng.below(NSRC)})
        elif r < 86:
            ops.append({"op": "logs", "key": key(), "pid": pid()})
        elif r < 90:
            ops.append({"op": "list", "key": key()})
        elif r < 93:
            ops.append({"op": "usage", "key": key()})
        else:
            a = rng.choice(["adm", "adm", "adm", "bad", None])
            k = rng.below(4)
            if k == 0 and ntenants < 5:
                ops.append({"op": "create_tenant", "admin": a, "name": "t%d" % ntenants})
                ntenants += 1
            elif k == 1:
                ops.append({"op": "list_tenants", "admin": a})
            elif k == 2:
                ops.append({"op": "get_tenant", "admin": a, "tid": rng.choice(list(range(ntenants)) + [77])})
            else:
                ops.append({"op": "delete_tenant", "admin": a, "tid": rng.choice(list(range(ntenants)) + [77])})
    return {"admin_key": admin, "quotas": quotas, "ops": ops}


# ---- harness side --------------------------------------------------------------------------------
def to_harness(seq):
    ops = []
    for o in seq["ops"]:
        h = dict(o)
        if "pid" in h:
            h["pid"] = "p%d" % h["pid"] if h["pid"] != UNKNOWN_PID else "no-such-pipeline"
        if "tid" in h:
            h["tid"] = "t%d" % h["tid"] if h["tid"] != 77 else "no-such-tenant"
        ops.append(h)
    # keys "@t<k>" are resolved by the harness to the real key of the k-th tenant (initial tenants included)
    return {"mode": "tenant", "admin_key": seq["admin_key"],
            "tenants": [{"key": "key-%d" % i, "max_pipelines": q} for i, q in enumerate(seq["quotas"])], "ops": ops}


def pnum(s):
    return int(s[1:]) if s[1:].isdigit() else -1


def render_resp(op, st, r):
    if "err" in r:
        return "%d err %s" % (st, r["err"])
    if "rejected" in r:
        return "rejected"
    name = op["op"]
    if name == "deploy":
        return "%d deployed %s %s" % (st, r["id"], r["name"])
    if name == "list":
        return "%d list [%s]" % (st, ",".join("%s:%s:%d%s" % (p[0], p[1], p[2], "" if p[3] == "running" else ":" + p[3]) for p in r["pipelines"]))
    if name == "get":
        p = r["pipeline"]
        return "%d pipe %s:%s:%d%s" % (st, p[0], p[1], p[2], "" if p[3] == "running" else ":" + p[3])
    if name == "usage":
        return "%d usage %d %d %d%s" % (st, r["events"], r["active"], r["max_pipelines"], "" if r["out"] == 0 else " out=%s" % r["out"])
    if name == "metrics":
        return "%d metrics %s %d%s" % (st, r["pipeline"], r["events"], "" if r["out"] == 0 else " out=%s" % r["out"])
    if name in ("delete", "delete_tenant") and r.get("deleted") is True:
        return "%d deleted" % st
    if name == "reload" and r.get("reloaded") is True:
        return "%d reloaded" % st
    if name == "logs" and r.get("sse"):
        return "%d stream" % st
    if name == "checkpoint":
        return "%d checkpoint %s %d" % (st, r["pipeline"], r["events"])
    if name == "restore":
        return "%d restored %s %d%s" % (st, r["pipeline"], r["events"], "" if r["restored"] is True else " restored=%s" % r["restored"])
    if name == "inject":
        return "%d injected [%s]%s" % (st, ",".join(str(e[1]) for e in r["out"]), "" if r["accepted"] is True and all(e[0] == "Out" for e in r["out"]) else " ?")
    if name == "batch":
        return "%d batch %d [%s]" % (st, r["accepted"], ",".join(str(e[1]) for e in r["out"]))
    if name == "create_tenant":
        return "%d tenant %s %s" % (st, r["id"], r["api_key"])
    if name == "list_tenants":
        return "%d tenants [%s]" % (st, ",".join(sorted(r["tenants"], key=pnum)))
    if name == "get_tenant":
        return "%d detail %s %d %d %d" % (st, r["tenant"], r["events"], r["active"], r["pipeline_count"])
    return "%d ?%s" % (st, json.dumps(r)[:100])


def render_tenant(t):
    if t is None:
        return "-"
    m = t["model"]
    ps = ",".join("%s:%s:%d:%d:%d%s" % (p[0], p[1], p[2], p[4], p[5], "" if p[3] == "running" else ":" + p[3]) for p in m["pipelines"])
    return "%s,%d,%d,%d,[%s],%d%s" % (m["key"], m["max_pipelines"], m["usage"][0], m["usage"][2], ps, 1 if m["key_resolves"] else 0,
                                      "" if m["usage"][1] == 0 else ",out=%s" % m["usage"][1])


def render_impl(seq, ans):
    return "#".join(render_resp(o, s["st"], s["resp"]) + "|" + ";".join(render_tenant(t) for t in s["tenants"])
                    for o, s in zip(seq["ops"], ans["steps"]))


# ---- model side ------------------------------------------------------------------------------------
def g_key(k):
    return T.g_opt_str(k)


def g_Z(z):
    return "(%d)%%Z" % z


def sop_coq(o):
    name = o["op"]
    k = g_key(o.get("key"))
    p = "%d" % o["pid"] if "pid" in o else ""
    if name == "deploy":
        return "SDeploy %s %s %d" % (k, T.g_str(o["name"]), o["src"])
    if name == "list":
        return "SList %s" % k
    if name == "usage":
        return "SUsage %s" % k
    if name in ("get", "delete", "metrics", "checkpoint", "logs"):
        return "%s %s %s" % ({"get": "SGet", "delete": "SDelete", "metrics": "SMetrics", "checkpoint": "SCheckpoint", "logs": "SLogs"}[name], k, p)
    if name == "inject":
        return "SInject %s %s %d %s" % (k, p, 0 if o["ty"] == "A" else 1, g_Z(o["x"]))
    if name == "batch":
        return "SBatch %s %s %s" % (k, p, T.g_list(o["events"], lambda e: "(%d, %s)" % (0 if e[0] == "A" else 1, g_Z(e[1]))))
    if name == "reload":
        return "SReload %s %s %d" % (k, p, o["src"])
    if name == "restore":
        return "SRestore %s %s %d" % (k, p, o["cp"])
    a = g_key(o.get("admin"))
    if name == "create_tenant":
        return "SCreate %s %s" % (a, T.g_str(o["name"]))
    if name == "list_tenants":
        return "SListT %s" % a
    if name == "get_tenant":
        return "SGetT %s %d" % (a, o["tid"])
    if name == "delete_tenant":
        return "SDelT %s %d" % (a, o["tid"])
    raise ValueError(name)


def case_coq(seq):
    return "case %s %s %s" % (g_key(seq["admin_key"]), T.g_list(seq["quotas"], lambda q: "%d" % q),
                              T.g_list(seq["ops"], lambda o: "(" + sop_coq(o) + ")"))


IMPORTS = ("From Coq Require Import String List Bool NArith ZArith.\nImport ListNotations.\n"
           "From VP Require Import Tenant.Model Tenant.Run.\nOpen Scope string_scope.\nOpen Scope N_scope.\n")


# ---- oracle (property text, on the implementation's answers and snapshots) ----------------------------
def owner_of_pid(snaps, sym):
    for i, t in enumerate(snaps):
        if t is not None and any(p[0] == sym for p in t["model"]["pipelines"]):
            return i
    return None


def judge(seq, ans):
    """-> list of (step index, message)"""
    fails = []
    nt0 = len(seq["quotas"])
    prev = [{"model": {"key": "@t%d" % i, "max_pipelines": q, "usage": [0, 0, 0], "pipelines": [], "key_resolves": True}, "deep": None}
            for i, q in enumerate(seq["quotas"])]
    for k, (o, s) in enumerate(zip(seq["ops"], ans["steps"])):
        cur = s["tenants"]
        is_admin = "admin" in o or o["op"] in ("create_tenant", "list_tenants", "get_tenant", "delete_tenant")
        actor = None
        if not is_admin and isinstance(o.get("key"), str):
            for i, t in enumerate(prev):
                if t is not None and t["model"]["key"] == o["key"] and t["model"]["key_resolves"]:
                    actor = i
        if not is_admin:
            # 1. nobody else's state changes (deep snapshot: complete engine checkpoints, usage, window counter)
            for i, t in enumerate(prev):
                if i == actor or i >= len(cur):
                    continue
                before = (t["model"], t["deep"]) if t is not None else None
                after = (cur[i]["model"], cur[i]["deep"]) if cur[i] is not None else None
                if t is not None and t["deep"] is None:       # initial pseudo-snapshot: compare the modelled part only
                    before, after = t["model"], (cur[i]["model"] if cur[i] is not None else None)
                if before != after:
                    fails.append((k, "%s with key %s changed tenant t%d: %s -> %s" % (o["op"], o.get("key"), i, json.dumps(before)[:200], json.dumps(after)[:200])))
            # 2. a pipeline of another tenant is never served
            if "pid" in o and o["pid"] != UNKNOWN_PID:
                own = owner_of_pid(prev, "p%d" % o["pid"])
                if own is not None and own != actor:
                    r = s["resp"]
                    served = (200 <= s["st"] < 300) and not (o["op"] == "batch" and r.get("accepted") == 0 and not r.get("out"))
                    if served:
                        fails.append((k, "%s on pipeline p%d of tenant t%d with key %s (tenant %s) was served: HTTP %s %s"
                                      % (o["op"], o["pid"], own, o.get("key"), actor, s["st"], json.dumps(r)[:200])))
            # 3. what is listed / read belongs to the caller
            r = s["resp"]
            listed = [p[0] for p in r.get("pipelines", [])] if o["op"] == "list" and "pipelines" in r else []
            if o["op"] == "get" and "pipeline" in r:
                listed = [r["pipeline"][0]]
            for sym in listed:
                own = owner_of_pid(prev, sym)
                if own != actor:
                    fails.append((k, "%s with key %s (tenant %s) shows pipeline %s of tenant %s" % (o["op"], o.get("key"), actor, sym, own)))
            if o["op"] == "usage" and "tenant" in r and actor is not None and r["tenant"] != "t%d" % actor:
                fails.append((k, "usage with key %s reports tenant %s" % (o.get("key"), r["tenant"])))
        prev = list(cur)
    return fails


def check(run):
    run.rule = ("request sequences (14-34 requests; thorough 20-60) over 2-3 tenants with pipeline quotas 1-3, every tenant endpoint (deploy, list, get, delete, "
                "inject, inject batch, metrics, checkpoint, restore with earlier checkpoints of any tenant, reload incl. unparsable source, logs, usage) with own / "
                "foreign / unknown pipeline ids and own / other / unknown / missing keys, interleaved with tenant admin requests (create, list, get, delete; right, wrong, "
                "missing admin key; admin API enabled or disabled); non-trivial = sequence in which some request names another tenant's pipeline; "
                "distinct = distinct sequence")
    run.trusted += ["Coq 8.16.1 kernel + vm_compute",
                    "hand-written model coq/theories/Tenant/Model.v tied by differential run (answer and every tenant's record after every request)",
                    "translator translate/tenant_handlers.py (lookup chain of every tenant handler; shape assertions fail closed)",
                    "Rust harness harness/crates/api (warp::test on api_routes, symbolic naming of UUIDs, per-tenant snapshots incl. complete engine checkpoints), Python driver"]
    run.assumptions += ["UUIDs do not collide", "fewer events than the tenant's events-per-second quota (10000) per second"]
    T.run_translator(run, "tenant_handlers.py", "lookup chain of the twelve tenant handlers of crates/varpulis-cli/src/api.rs")
    binpath = T.build(run, ["theories/Tenant/Props.vo", "theories/Tenant/Run.vo"], "C28.v")
    if binpath is None:
        return
    n = 150 if run.tier == "quick" else 1200
    seqs = [gen_seq(run.rng, run.tier) for _ in range(n)]
    answers = harness.run_jsonl(binpath, [to_harness(s) for s in seqs], timeout=3000)
    model = None
    try:
        model = coqtools.coq_eval("C28", IMPORTS, [case_coq(s) for s in seqs], shard=max(10, len(seqs) // 12 + 1), timeout=1500)
    except RuntimeError as e:
        run.tie_broken("model evaluation (coqc cases)", str(e))
    n_or = n_co = 0
    for k, (seq, ans) in enumerate(zip(seqs, answers)):
        if "steps" not in ans:
            run.tie_broken("harness answer", str(ans)[:500])
            continue
        foreign = 0
        prev = [None] * 8
        for o, s in zip(seq["ops"], ans["steps"]):
            run.count("op=" + o["op"])
            kk = o.get("key", o.get("admin"))
            run.count("key=" + ("missing" if kk is None else ("unknown" if kk in ("nope", "bad", "key-", "key-00", "KEY-0", "") else ("admin" if kk == "adm" else "tenant"))))
            run.count("status=%d" % s["st"])
            if "pid" in o:
                own = owner_of_pid([t for t in prev if True], "p%d" % o["pid"]) if o["pid"] != UNKNOWN_PID else None
                who = None
                for i, t in enumerate(prev):
                    if t is not None and t["model"]["key"] == o.get("key"):
                        who = i
                kind = "unknown-id" if own is None else ("own-id" if own == who else "foreign-id")
                run.count("target=" + kind)
                if kind == "foreign-id":
                    foreign += 1
            prev = list(s["tenants"]) + [None] * 8
        run.case(k if foreign else None, sample={"sequence": seq, "first answers": [s["resp"] for s in ans["steps"][:4]]} if k in (0, 7) else None)
        run.count("tenants=%d" % len(seq["quotas"]))
        fails = judge(seq, ans)
        if fails:
            n_or += 1
            if n_or <= 3:
                kf, msg = fails[0]
                small = dict(seq, ops=seq["ops"][:kf + 1])
                run.violation(msg[:700], {"sequence": small, "failing_step": kf, "all_failures": [m for _, m in fails][:5],
                                          "contradicts": "C28_step_isolation / C28_isolation / C28_foreign_id_refused in coq/theories/Tenant/Props.v"})
        if model is not None:
            impl = render_impl(seq, ans)
            if impl != model[k]:
                n_co += 1
                if n_co <= 3:
                    a, b = impl.split("#"), model[k].split("#")
                    j = next((i for i in range(min(len(a), len(b))) if a[i] != b[i]), min(len(a), len(b)))
                    run.tie_broken("correspondence Tenant/Model.v vs api.rs + tenant.rs on sequence %s" % json.dumps(dict(seq, ops=seq["ops"][:j + 1]))[:900],
                                   "first difference at step %d (%s):\n impl  %s\n model %s" % (j, json.dumps(seq["ops"][j]) if j < len(seq["ops"]) else "-",
                                                                                                 a[j] if j < len(a) else "-", b[j] if j < len(b) else "-"))
    run.extra["oracle_failures"] = n_or
    run.extra["disagreements"] = n_co


def replay(run, path):
    r = json.load(open(path))["replay"]
    seq = r["sequence"]
    ok, bindir, lg = harness.build(T.BIN)
    ans = harness.run_jsonl(os.path.join(bindir, T.BIN), [to_harness(seq)])[0]
    run.case(("replay",), {"sequence": seq})
    run.case(("replay2",))
    fails = judge(seq, ans)
    if fails:
        run.violation(fails[0][1][:700], {"sequence": seq, "all_failures": [m for _, m in fails][:5]})
