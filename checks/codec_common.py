"""Shared machinery for C20 (checkpoint serialisation) and C44 (REST JSON <-> value).

Python-side representations
  JSON tree : ("n",) ("b",bool) ("i",int) ("d",bits) ("s",[cp..]) ("a",[tree..]) ("o",[([cp..],tree)..])
  value     : ("N",) ("B",bool) ("I",int) ("F",bits) ("S",[cp..]) ("T",int) ("D",int) ("A",[v..]) ("M",[([cp..],v)..])
  event     : {"type":[cp..], "ts":ns, "fields":[([cp..], value)..]}
Canonical strings (render_*) are identical to coq/theories/Codec/Run.v.
"""
import json
import os
import re
import struct

from vplib import coqtools, harness

IMPORTS = ("From Coq Require Import String List ZArith NArith.\nImport ListNotations.\n"
           "From VP Require Import Base.Render Codec.Model Codec.Run.\nOpen Scope Z_scope.\n")

I64_MIN, I64_MAX, U64_MAX = -(1 << 63), (1 << 63) - 1, (1 << 64) - 1
NAN_BITS = 0x7FF8000000000000
INF_BITS = 0x7FF0000000000000
NINF_BITS = 0xFFF0000000000000


def f2b(x):
    return struct.unpack("<Q", struct.pack("<d", x))[0]


def b2f(b):
    return struct.unpack("<d", struct.pack("<Q", b))[0]


def is_finite_bits(b):
    return (b >> 52) & 0x7FF != 0x7FF


def is_nan_bits(b):
    return (b >> 52) & 0x7FF == 0x7FF and (b & ((1 << 52) - 1)) != 0


def cps(s):
    return [ord(c) for c in s]


def uncps(l):
    return "".join(chr(c) for c in l)


# ------------------------------------------------------------------ JSON text <-> tree
_NUM = re.compile(r"-?(?:0|[1-9][0-9]*)(\.[0-9]+)?([eE][+-]?[0-9]+)?")
_WS = " \t\r\n"


class ParseError(Exception):
    pass


def parse_json(text):
    """Exact JSON text -> tree (keeps duplicate keys and key order, classifies numbers like serde_json)."""
    pos = [0]

    def ws():
        while pos[0] < len(text) and text[pos[0]] in _WS:
            pos[0] += 1

    def val():
        ws()
        if pos[0] >= len(text):
            raise ParseError("eof")
        c = text[pos[0]]
        if c == "{":
            pos[0] += 1
            out = []
            ws()
            if text[pos[0]] == "}":
                pos[0] += 1
                return ("o", out)
            while True:
                ws()
                k = string()
                ws()
                if text[pos[0]] != ":":
                    raise ParseError("colon")
                pos[0] += 1
                out.append((k, val()))
                ws()
                if text[pos[0]] == ",":
                    pos[0] += 1
                    continue
                if text[pos[0]] == "}":
                    pos[0] += 1
                    return ("o", out)
                raise ParseError("obj")
        if c == "[":
            pos[0] += 1
            out = []
            ws()
            if text[pos[0]] == "]":
                pos[0] += 1
                return ("a", out)
            while True:
                out.append(val())
                ws()
                if text[pos[0]] == ",":
                    pos[0] += 1
                    continue
                if text[pos[0]] == "]":
                    pos[0] += 1
                    return ("a", out)
                raise ParseError("arr")
        if c == '"':
            return ("s", string())
        if text.startswith("null", pos[0]):
            pos[0] += 4
            return ("n",)
        if text.startswith("true", pos[0]):
            pos[0] += 4
            return ("b", True)
        if text.startswith("false", pos[0]):
            pos[0] += 5
            return ("b", False)
        m = _NUM.match(text, pos[0])
        if not m or m.end() == pos[0]:
            raise ParseError("value at %d" % pos[0])
        pos[0] = m.end()
        lit = m.group(0)
        if m.group(1) is None and m.group(2) is None:
            z = int(lit)
            if I64_MIN <= z <= U64_MAX and not (lit.startswith("-") and z == 0):
                return ("i", z)
        return ("d", f2b(float(lit)))

    def string():
        if text[pos[0]] != '"':
            raise ParseError("string")
        pos[0] += 1
        out = []
        while True:
            c = text[pos[0]]
            if c == '"':
                pos[0] += 1
                return out
            if c == "\\":
                e = text[pos[0] + 1]
                pos[0] += 2
                if e == "u":
                    u = int(text[pos[0]:pos[0] + 4], 16)
                    pos[0] += 4
                    if 0xD800 <= u < 0xDC00 and text.startswith("\\u", pos[0]):
                        lo = int(text[pos[0] + 2:pos[0] + 6], 16)
                        pos[0] += 6
                        u = 0x10000 + ((u - 0xD800) << 10) + (lo - 0xDC00)
                    out.append(u)
                else:
                    out.append(ord({"n": "\n", "t": "\t", "r": "\r", "b": "\b", "f": "\f", "/": "/", "\\": "\\", '"': '"'}[e]))
            else:
                out.append(ord(c))
                pos[0] += 1

    v = val()
    ws()
    if pos[0] != len(text):
        raise ParseError("trailing")
    return v


def print_json(t):
    """tree -> JSON text (finite floats by shortest round-trip repr)."""
    k = t[0]
    if k == "n":
        return "null"
    if k == "b":
        return "true" if t[1] else "false"
    if k == "i":
        return str(t[1])
    if k == "d":
        assert is_finite_bits(t[1])
        r = repr(b2f(t[1]))
        return r
    if k == "s":
        return json.dumps(uncps(t[1]), ensure_ascii=False)
    if k == "a":
        return "[" + ",".join(print_json(x) for x in t[1]) + "]"
    if k == "o":
        return "{" + ",".join(json.dumps(uncps(kk), ensure_ascii=False) + ":" + print_json(v) for kk, v in t[1]) + "}"
    raise ValueError(k)


def tree_get(t, key):
    assert t[0] == "o", t[0]
    for k, v in t[1]:
        if uncps(k) == key:
            return v
    raise KeyError(key)


# ------------------------------------------------------------------ canonical rendering (== Codec/Run.v)
def r_str(s):
    return ".".join(str(c) for c in s)


def r_float(b):
    return "nan" if is_nan_bits(b) else str(b)


def render_json(t):
    k = t[0]
    if k == "n":
        return "n"
    if k == "b":
        return "t" if t[1] else "f"
    if k == "i":
        return "i%d" % t[1]
    if k == "d":
        return "d" + r_float(t[1])
    if k == "s":
        return "s" + r_str(t[1])
    if k == "a":
        return "[" + ",".join(render_json(x) for x in t[1]) + "]"
    if k == "o":
        kv = sorted(((kk, render_json(v)) for kk, v in t[1]), key=lambda p: p[0])
        return "{" + ",".join(r_str(kk) + ":" + v for kk, v in kv) + "}"
    raise ValueError(k)


def render_value(v):
    k = v[0]
    if k == "N":
        return "N"
    if k == "B":
        return "B1" if v[1] else "B0"
    if k == "I":
        return "I%d" % v[1]
    if k == "F":
        return "F" + r_float(v[1])
    if k == "S":
        return "S" + r_str(v[1])
    if k == "T":
        return "T%d" % v[1]
    if k == "D":
        return "D%d" % v[1]
    if k == "A":
        return "A[" + ",".join(render_value(x) for x in v[1]) + "]"
    if k == "M":
        return "M{" + ",".join(r_str(kk) + ":" + render_value(x) for kk, x in v[1]) + "}"
    raise ValueError(k)


def render_event(e):
    kv = sorted(((k, render_value(v)) for k, v in e["fields"]), key=lambda p: p[0])
    return "E(%s;%d;{%s})" % (r_str(e["type"]), e["ts"], ",".join(r_str(k) + ":" + v for k, v in kv))


# ------------------------------------------------------------------ harness wire format (vp-common tagged JSON)
def value_to_wire(v):
    k = v[0]
    if k == "N":
        return {"n": None}
    if k == "B":
        return {"b": v[1]}
    if k == "I":
        return {"i": str(v[1])}
    if k == "F":
        return {"f": str(v[1])}
    if k == "S":
        return {"s": uncps(v[1])}
    if k == "T":
        return {"ts": str(v[1])}
    if k == "D":
        return {"dur": str(v[1])}
    if k == "A":
        return {"a": [value_to_wire(x) for x in v[1]]}
    if k == "M":
        return {"m": [[uncps(kk), value_to_wire(x)] for kk, x in v[1]]}
    raise ValueError(k)


def value_from_wire(j):
    (k, v), = j.items()
    if k == "n":
        return ("N",)
    if k == "b":
        return ("B", v)
    if k == "i":
        return ("I", int(v))
    if k == "f":
        return ("F", int(v))
    if k == "s":
        return ("S", cps(v))
    if k == "ts":
        return ("T", int(v))
    if k == "dur":
        return ("D", int(v))
    if k == "a":
        return ("A", [value_from_wire(x) for x in v])
    if k == "m":
        return ("M", [(cps(kk), value_from_wire(x)) for kk, x in v])
    raise ValueError(k)


def event_to_wire(e):
    return {"type": uncps(e["type"]), "ts_ns": e["ts"], "fields": [[uncps(k), value_to_wire(v)] for k, v in e["fields"]]}


def event_from_wire(j):
    return {"type": cps(j["type"]), "ts": j["ts_ns"], "fields": [(cps(k), value_from_wire(v)) for k, v in j["fields"]]}


# ------------------------------------------------------------------ Gallina printers
def g_str(s):
    return "[" + "; ".join("%d%%N" % c for c in s) + "]"


def g_value(v):
    k = v[0]
    if k == "N":
        return "VNull"
    if k == "B":
        return "(VBool %s)" % ("true" if v[1] else "false")
    if k == "I":
        return "(VInt (%d))" % v[1]
    if k == "F":
        return "(VFloat %d)" % v[1]
    if k == "S":
        return "(VStr %s)" % g_str(v[1])
    if k == "T":
        return "(VTs (%d))" % v[1]
    if k == "D":
        return "(VDur %d)" % v[1]
    if k == "A":
        return "(VArr [%s])" % "; ".join(g_value(x) for x in v[1])
    if k == "M":
        return "(VMap [%s])" % "; ".join("(%s, %s)" % (g_str(kk), g_value(x)) for kk, x in v[1])
    raise ValueError(k)


def g_event(e):
    return "(mkEv %s (%d) [%s])" % (g_str(e["type"]), e["ts"], "; ".join("(%s, %s)" % (g_str(k), g_value(v)) for k, v in e["fields"]))


def g_json(t):
    k = t[0]
    if k == "n":
        return "JNull"
    if k == "b":
        return "(JBool %s)" % ("true" if t[1] else "false")
    if k == "i":
        return "(JInt (%d))" % t[1]
    if k == "d":
        return "(JFlt %d)" % t[1]
    if k == "s":
        return "(JStr %s)" % g_str(t[1])
    if k == "a":
        return "(JArr [%s])" % "; ".join(g_json(x) for x in t[1])
    if k == "o":
        return "(JObj [%s])" % "; ".join("(%s, %s)" % (g_str(kk), g_json(v)) for kk, v in t[1])
    raise ValueError(k)


# ------------------------------------------------------------------ generators
STRINGS = ["", "a", "x", "name", "Null", "NaN", "Infinity", "-Infinity", "Int", "é", "日本", "\U0001F600", "q\"uote", "back\\slash", "tab\tnl\n",
           "\u0000", "\u001f", "\u007f", " ", "﻿", "emoji\U0001F9EAmix", "{", "[1]"]
KEYS = ["a", "b", "v", "w", "x", "ts", "é", "k\"", "Null", "", "event_type", "fields", "\U0001F600"]
INTS = [0, 1, -1, 42, 255, -256, 2**31 - 1, -2**31, 2**53, 2**53 + 1, -(2**53) - 1, I64_MAX, I64_MAX - 1, I64_MIN, I64_MIN + 1]
FLOATS_FINITE = [0.0, -0.0, 1.0, -1.0, 0.1, 0.5, 1.5, 3.15, 1e300, -1e300, 5e-324, 2.2250738585072014e-308, 1.7976931348623157e308,
                 9007199254740992.0, 9007199254740993.0, 1e21, 1e-7, 123456789.125, 0.30000000000000004, 4.35, 1e23, 8.41e21, 2.0**63, 2.0**64, -2.0**63]
NONFINITE_BITS = [NAN_BITS, INF_BITS, NINF_BITS, 0xFFF8000000000000, 0x7FF0000000000001, 0x7FFFFFFFFFFFFFFF]


def gen_float_bits(rng, allow_nonfinite):
    k = rng.below(10)
    if allow_nonfinite and k == 0:
        return rng.choice(NONFINITE_BITS)
    if k < 6:
        return f2b(rng.choice(FLOATS_FINITE))
    while True:
        b = rng.next()
        if is_finite_bits(b):
            return b


def gen_str(rng):
    if rng.chance(3, 4):
        return cps(rng.choice(STRINGS))
    n = rng.below(6)
    out = []
    for _ in range(n):
        c = rng.choice([rng.range(0, 0x7F), rng.range(0x80, 0x7FF), rng.range(0x800, 0xD7FF), rng.range(0xE000, 0xFFFF), rng.range(0x10000, 0x10FFFF)])
        out.append(c)
    return out


def gen_key(rng):
    return cps(rng.choice(KEYS)) if rng.chance(4, 5) else gen_str(rng)


def gen_value(rng, depth, allow_nonfinite):
    k = rng.below(13 if depth > 0 else 9)
    if k == 0:
        return ("N",)
    if k == 1:
        return ("B", rng.chance(1, 2))
    if k in (2, 3):
        return ("I", rng.choice(INTS) if rng.chance(2, 3) else rng.range(I64_MIN, I64_MAX))
    if k in (4, 5):
        return ("F", gen_float_bits(rng, allow_nonfinite))
    if k == 6:
        return ("S", gen_str(rng))
    if k == 7:
        return ("T", rng.choice([0, 1, -1, 1_700_000_000_123_456_789, I64_MAX, I64_MIN]) if rng.chance(2, 3) else rng.range(I64_MIN, I64_MAX))
    if k == 8:
        return ("D", rng.choice([0, 1, 5_000_000_000, U64_MAX, 1 << 63]) if rng.chance(2, 3) else rng.range(0, U64_MAX))
    if k in (9, 10):
        return ("A", [gen_value(rng, depth - 1, allow_nonfinite) for _ in range(rng.below(4))])
    m = []
    seen = set()
    for _ in range(rng.below(4)):
        kk = gen_key(rng)
        if tuple(kk) in seen:
            continue
        seen.add(tuple(kk))
        m.append((kk, gen_value(rng, depth - 1, allow_nonfinite)))
    return ("M", m)


# event timestamps (ns). chrono's DateTime<Utc> range is about +-262000 years; stay well inside.
TS_WHOLE_MS = [0, 1_000_000, -1_000_000, 1_700_000_000_123_000_000, -2_208_988_800_000_000_000, 4_102_444_800_000_000_000]
TS_SUBMS = [1, 999_999, 1_700_000_000_123_456_789, -1, -999_999, 1_500_000, -1_500_001, 123_456]


def gen_event(rng, allow_nonfinite, allow_subms):
    fields = []
    seen = set()
    for _ in range(rng.below(5)):
        kk = gen_key(rng)
        if tuple(kk) in seen:
            continue
        seen.add(tuple(kk))
        fields.append((kk, gen_value(rng, 2, allow_nonfinite)))
    if allow_subms and rng.chance(1, 3):
        ts = rng.choice(TS_SUBMS) if rng.chance(1, 2) else rng.range(-2_000_000_000_000_000_000, 4_000_000_000_000_000_000)
    else:
        ts = rng.choice(TS_WHOLE_MS) if rng.chance(1, 2) else rng.range(-2_000_000_000_000, 4_000_000_000_000) * 1_000_000
    return {"type": gen_str(rng) if rng.chance(1, 4) else cps(rng.choice(["A", "Sensor", "Трейд"])), "ts": ts, "fields": fields}


def has_nonfinite(v):
    if v[0] == "F":
        return not is_finite_bits(v[1])
    if v[0] == "A":
        return any(has_nonfinite(x) for x in v[1])
    if v[0] == "M":
        return any(has_nonfinite(x) for _, x in v[1])
    return False


def value_eq(a, b):
    """equality of values with all NaNs identified"""
    if a[0] != b[0]:
        return False
    if a[0] == "F":
        return a[1] == b[1] or (is_nan_bits(a[1]) and is_nan_bits(b[1]))
    if a[0] == "A":
        return len(a[1]) == len(b[1]) and all(value_eq(x, y) for x, y in zip(a[1], b[1]))
    if a[0] == "M":
        return len(a[1]) == len(b[1]) and all(k1 == k2 and value_eq(x, y) for (k1, x), (k2, y) in zip(a[1], b[1]))
    return a == b


def event_eq(a, b):
    """same type, same instant, same fields (as a map: field order is not part of an event's identity)"""
    if a["type"] != b["type"] or a["ts"] != b["ts"] or len(a["fields"]) != len(b["fields"]):
        return False
    fb = {tuple(k): v for k, v in b["fields"]}
    return all(tuple(k) in fb and value_eq(v, fb[tuple(k)]) for k, v in a["fields"])


def build(run, targets, audit_file, allow=()):
    coqtools.prove(run, targets, audit_file, allow)
    okb, bindir, blog = harness.build("vp-codec")
    if not okb:
        run.tie_broken("harness build vp-codec", blog[-3000:])
        return None
    return os.path.join(bindir, "vp-codec")
