"""Shared plumbing for the text-processing properties C46 / C39 / C42 (harness vp-text, Coq area Text)."""
import os
import re

from vplib import coqtools, harness
from vplib.common import REPO

BIN = "vp-text"


def build_all(run, targets, audit_file, allow=()):
    """banned-word scan, Coq build, audit, harness build. Returns path of vp-text or None."""
    hits = coqtools.banned_scan()
    run.oblige("no Admitted/admit/Axiom/Parameter/guard-off anywhere in coq/", not hits, str(hits[:5]))
    ok, lg = coqtools.make(targets)
    run.oblige("make " + " ".join(targets), ok, lg[-3000:])
    if ok:
        a = coqtools.audit(audit_file, allow_axioms=allow)
        run.axioms |= a["axioms"]
        run.oblige("audit %s: %d Check pins, %d/%d Print Assumptions, axioms allowed" % (audit_file, a["n_pins"], a["n_print"], a["n_expected"]),
                   a["ok"], a["log"] + str(a["bad_axioms"]))
        run.extra["theorems_audited"] = a["n_print"]
    run.checker_cmd = "coqc 8.16.1 (full .vo) %s; coqc coq/audit/%s" % (" ".join(targets), audit_file)
    okb, bindir, blog = harness.build(BIN)
    if not okb:
        run.tie_broken("harness build " + BIN, blog[-3000:])
        return None
    return os.path.join(bindir, BIN)


def cps(s):
    return [ord(c) for c in s]


def g_cps(s):
    """Gallina literal (list N) of a python string"""
    return "[" + ";".join(str(ord(c)) for c in s) + "]"


def from_cps(txt):
    """inverse of Run.v str_of_cps: '65.66' -> 'AB'"""
    return "" if txt == "" else "".join(chr(int(x)) for x in txt.split("."))


def repo_const(relpath, name):
    """integer constant `const NAME: ty = 1_000;` read from the repository source (fails closed)"""
    src = open(os.path.join(REPO, relpath)).read()
    m = re.search(r"\bconst\s+%s\s*:\s*\w+\s*=\s*([0-9_]+)\s*;" % re.escape(name), src)
    if not m:
        raise RuntimeError("constant %s not found in %s" % (name, relpath))
    return int(m.group(1).replace("_", ""))


def shrink_list(items, still_fails, max_rounds=200):
    """greedy one-at-a-time removal"""
    items = list(items)
    rounds = 0
    changed = True
    while changed and rounds < max_rounds:
        changed = False
        for i in range(len(items) - 1, -1, -1):
            rounds += 1
            cand = items[:i] + items[i + 1:]
            if still_fails(cand):
                items = cand
                changed = True
                break
    return items
