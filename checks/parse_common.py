"""Shared plumbing for C41 / C43: a child-process runner with a per-request time limit (a hang or an abort of the
child is observed, not fatal), the example corpus, and grammar-aware / byte-level mutation of VPL sources."""
import glob
import json
import os
import re
import select
import subprocess
import time

from vplib.common import REPO


class Child:
    """Line-oriented JSON child. `ask(req, limit)` returns the answer, or {"timeout": s} / {"abort": returncode}
    after killing (and later restarting) the child."""

    def __init__(self, binpath, args=()):
        self.cmd = [binpath] + list(args)
        self.p = None
        self.restarts = 0

    def _start(self):
        self.p = subprocess.Popen(self.cmd, stdin=subprocess.PIPE, stdout=subprocess.PIPE, stderr=subprocess.DEVNULL, bufsize=0)
        self.buf = b""

    def _kill(self):
        if self.p is not None:
            try:
                self.p.kill()
                self.p.wait(timeout=10)
            except Exception:
                pass
        self.p = None
        self.restarts += 1

    def ask(self, req, limit):
        if self.p is None or self.p.poll() is not None:
            self._start()
        data = (json.dumps(req, separators=(",", ":")) + "\n").encode()
        try:
            self.p.stdin.write(data)
            self.p.stdin.flush()
        except (BrokenPipeError, OSError):
            rc = self.p.poll()
            self._kill()
            return {"abort": rc}
        deadline = time.time() + limit
        while b"\n" not in self.buf:
            left = deadline - time.time()
            if left <= 0:
                self._kill()
                return {"timeout": limit}
            r, _, _ = select.select([self.p.stdout], [], [], min(left, 1.0))
            if r:
                chunk = os.read(self.p.stdout.fileno(), 1 << 16)
                if not chunk:
                    rc = self.p.wait()
                    self._kill()
                    return {"abort": rc}
                self.buf += chunk
        line, self.buf = self.buf.split(b"\n", 1)
        return json.loads(line)

    def close(self):
        if self.p is not None:
            try:
                self.p.stdin.close()
                self.p.wait(timeout=10)
            except Exception:
                self._kill()
            self.p = None


# ---------------------------------------------------------------- corpus
def example_files():
    fs = sorted(glob.glob(os.path.join(REPO, "examples", "**", "*.vpl"), recursive=True) +
                glob.glob(os.path.join(REPO, "tests", "**", "*.vpl"), recursive=True))
    return fs


def load_examples():
    out = []
    for f in example_files():
        try:
            out.append((os.path.relpath(f, REPO), open(f, encoding="utf-8").read()))
        except (OSError, UnicodeDecodeError):
            pass
    if len(out) < 10:
        raise RuntimeError("example corpus under %s/examples and %s/tests not found" % (REPO, REPO))
    return out


def fragments(text, rng, max_bytes):
    """a window of consecutive top-level statements (a statement = a line at column 0 and what follows it)"""
    lines = text.split("\n")
    starts = [i for i, l in enumerate(lines) if l and not l[0].isspace() and not l.startswith("#")]
    if not starts:
        return text[:max_bytes]
    a = rng.below(len(starts))
    b = a
    size = 0
    while b < len(starts):
        end = starts[b + 1] if b + 1 < len(starts) else len(lines)
        size += sum(len(l) + 1 for l in lines[starts[b]:end])
        if size > max_bytes and b > a:
            break
        b += 1
    end = starts[b] if b < len(starts) else len(lines)
    return "\n".join(lines[starts[a]:end]) + "\n"


TOKEN = re.compile(r'"(?:[^"\\\n]|\\.)*"|[A-Za-z_][A-Za-z_0-9]*|\d+(?:\.\d+)?[a-z]*|->|=>|==|!=|<=|>=|\.\.=?|\S')
MB = ["é", "ß", "日本", "→", "😀", "\u00a0", "\u3000", "\u2003", "ñ", "Ω", "\u200b", "«", "»", "«INDENT»", "«DEDENT»", "\ufeff", "\u0085", "\u2028"]
OPEN, CLOSE = "([{", ")]}"
BLOCK_LINES = ["fn f(a: int) -> int:", "if x > 1:", "else:", "elif y:", "for k in items:", "while z < 3:", "config:", "event Ev:", "fn g():"]


def _token_spans(s):
    return [m.span() for m in TOKEN.finditer(s)]


def mutate_grammar(s, rng):
    """one grammar-aware mutation; returns (text, label)"""
    k = rng.below(30)
    spans = _token_spans(s)
    lines = s.split("\n")

    def pick_span():
        return rng.choice(spans) if spans else (0, 0)

    if k == 0:                                      # delete a token
        a, b = pick_span()
        return s[:a] + s[b:], "del-token"
    if k == 1:                                      # duplicate a token
        a, b = pick_span()
        return s[:b] + " " + s[a:b] + s[b:], "dup-token"
    if k == 2 and len(spans) > 1:                   # swap two tokens
        (a, b), (c, d) = sorted([pick_span(), pick_span()])
        if b <= c:
            return s[:a] + s[c:d] + s[b:c] + s[a:b] + s[d:], "swap-tokens"
    if k == 3:                                      # remove a closing bracket
        idx = [i for i, ch in enumerate(s) if ch in CLOSE]
        if idx:
            i = rng.choice(idx)
            return s[:i] + s[i + 1:], "unbalance-close"
    if k == 4:                                      # remove an opening bracket
        idx = [i for i, ch in enumerate(s) if ch in OPEN]
        if idx:
            i = rng.choice(idx)
            return s[:i] + s[i + 1:], "unbalance-open"
    if k == 5:                                      # change the kind of a bracket
        idx = [i for i, ch in enumerate(s) if ch in OPEN + CLOSE]
        if idx:
            i = rng.choice(idx)
            return s[:i] + rng.choice(OPEN + CLOSE) + s[i + 1:], "swap-bracket"
    if k in (6, 7):                                 # deep nesting around / instead of a token
        a, b = pick_span()
        n = rng.choice([3, 10, 20, 23, 24, 25, 26, 40, 200])
        o = rng.choice(OPEN)
        c = CLOSE[OPEN.index(o)]
        if k == 6:
            return s[:a] + o * n + s[a:b] + c * n + s[b:], "deep-nesting-%d" % (n if n < 30 else 30)
        return s[:a] + o * n + s[a:], "deep-open-%d" % (n if n < 30 else 30)
    if k == 8:                                      # tabs for the indentation of some lines
        out = [("\t" * ((len(l) - len(l.lstrip(" "))) // 4) + l.lstrip(" ")) if rng.chance(1, 2) else l for l in lines]
        return "\n".join(out), "tabs"
    if k == 9:                                      # change the indentation of one line
        i = rng.below(len(lines))
        return "\n".join(lines[:i] + [rng.choice(["", " ", "  ", "    ", "        ", "\t", " \t "]) + lines[i].lstrip()] + lines[i + 1:]), "reindent-line"
    if k == 10:                                     # multi-byte white space in front of a line
        i = rng.below(len(lines))
        return "\n".join(lines[:i] + [rng.choice(["\u3000", "\u00a0", "\u2003 ", " \u3000"]) + lines[i]] + lines[i + 1:]), "multibyte-indent"
    if k in (11, 12):                               # non-ASCII text inside / instead of a token
        a, b = pick_span()
        t = rng.choice(MB)
        return (s[:a] + t + s[b:], "nonascii-token") if k == 11 else (s[:(a + b) // 2] + t + s[(a + b) // 2:], "nonascii-inside")
    if k == 13:                                     # wrap the text in a declaration loop
        rngs = rng.choice(["0..2", "0..=1", "1..4", "0..0", "0..30", "-1..1", "0..10000", "0..10001", "0..=9223372036854775807",
                           "-9223372036854775808..1", "9223372036854775806..=9223372036854775807", "0..300"])
        ind = rng.choice(["    ", "  ", "\t", " "])
        return "for i in %s:\n" % rngs + "\n".join((ind + l) if l.strip() else l for l in lines) + "\n", "wrap-loop"
    if k == 14:                                     # loop with ragged / multi-byte body in front
        body = rng.choice(["        stream A{i} = X\n    stream B{i} = Y\n", " x{i}\n\u3000y{i}\n", "  é{i}\n ü\n", "    a{i}\n\n   b\n", "\tx{i}\n    y\n",
                           "    for j in 0..3:\n        s{i}{j}\n", "    val v{i} = ((({i})))\n"])
        return "for i in %d..%d:\n%s%s" % (rng.below(3), rng.below(6), body, s), "loop-prefix"
    if k == 15:                                     # nested loops (expansion size)
        a, b, c = rng.choice([(3, 3, 3), (100, 100, 1), (1000, 200, 1), (10000, 10000, 1), (10000, 10000, 10000), (50, 50, 50), (300, 300, 1)])
        src = "for a in 0..%d:\n  for b in 0..%d:\n" % (a, b)
        src += ("    for c in 0..%d:\n      stream S{a}_{b}_{c} = E\n" % c) if c > 1 else "    stream S{a}_{b} = E\n"
        return src + s[:400], "nested-loops-%s" % ("big" if a * b * c > 100000 else "small")
    if k == 16:                                     # unterminated block comment / stray terminator
        a, b = pick_span()
        return s[:a] + rng.choice(["/*", "*/", "/* x */", "/*/", "/**"]) + s[a:], "block-comment"
    if k == 17:                                     # unbalanced quote / escape
        a, b = pick_span()
        return s[:a] + rng.choice(['"', '\\', '"\\', "'", '\\"', '"\\\\"']) + s[a:], "quote"
    if k == 18:                                     # comment marker
        a, b = pick_span()
        return s[:a] + rng.choice(["#", "# (((", "//", "# \"", "#/*"]) + s[a:], "comment"
    if k == 19:                                     # CRLF / no final newline / lone CR
        c = rng.below(4)
        if c == 0:
            return s.replace("\n", "\r\n"), "crlf"
        if c == 1:
            return s.rstrip("\n"), "no-final-newline"
        if c == 2:
            return s.replace("\n", "\r", 1), "lone-cr"
        return s + "\n\n   \n", "trailing-blank"
    if k in (20, 21):                               # a block-introducing line somewhere
        i = rng.below(len(lines) + 1)
        ind = rng.choice(["", "    ", "  "])
        return "\n".join(lines[:i] + [ind + rng.choice(BLOCK_LINES)] + lines[i:]), "block-line"
    if k == 22:                                     # a stray token at the end of a block (position after DEDENT markers)
        return "fn f():\n    if a:\n        if b:\n            return 1\n" + rng.choice([")", "]", "stream = ", "é", "«"]) + "\n" + s, "after-dedent"
    if k == 23:                                     # keyword games: not / and / or / in
        a, b = pick_span()
        return s[:a] + rng.choice(["not ", "not not ", "and ", "or ", "in ", "is ", "not(", "NOT "]) + s[a:], "keyword"
    if k == 24:                                     # numbers at the edges
        idx = [m.span() for m in re.finditer(r"\d+", s)]
        if idx:
            a, b = rng.choice(idx)
            return s[:a] + rng.choice(["9223372036854775807", "9223372036854775808", "99999999999999999999999", "0", "1e999", "0x", "1_0", "-9223372036854775808"]) + s[b:], "number-edge"
    if k == 25:                                     # delete a line
        i = rng.below(len(lines))
        return "\n".join(lines[:i] + lines[i + 1:]), "del-line"
    if k == 26:                                     # duplicate a line with deeper indentation
        i = rng.below(len(lines))
        return "\n".join(lines[:i + 1] + ["    " + lines[i]] + lines[i + 1:]), "dup-line-deeper"
    if k == 27:                                     # truncate
        return s[:rng.below(len(s) + 1)], "truncate"
    if k == 28:                                     # a marker text of the indentation pass in the source
        a, b = pick_span()
        return s[:a] + rng.choice(["«INDENT»", "«DEDENT»", "«", "»"]) + s[a:], "marker-text"
    # replace a token by another token of the text
    (a, b), (c, d) = pick_span(), pick_span()
    return s[:a] + s[c:d] + s[b:], "replace-token"


def mutate_bytes(s, rng):
    """byte-level mutation of the UTF-8 encoding, decoded leniently (invalid sequences become U+FFFD)"""
    bs = bytearray(s.encode("utf-8"))
    n = rng.range(1, 4)
    for _ in range(n):
        k = rng.below(5)
        i = rng.below(len(bs) + 1)
        if k == 0 and bs:
            bs[i % len(bs)] ^= 1 << rng.below(8)
        elif k == 1:
            bs[i:i] = bytes([rng.below(256)])
        elif k == 2 and bs:
            del bs[i % len(bs)]
        elif k == 3:
            bs[i:i] = rng.choice([b"\x00", b"\xff", b"\xc3", b"\xe2\x82", b"\xf0\x9f\x98\x80", b"\xc2\xab", b"\r", b"\t", b"\x0b", b"\x0c", b"\xe3\x80\x80"])
        elif bs:
            j = rng.below(len(bs) + 1)
            a, b = min(i, j), max(i, j)
            del bs[a:min(b, a + 40)]
    return bytes(bs).decode("utf-8", errors="replace"), "bytes"


# ---------------------------------------------------------------- the property's range oracle for an error value
def position_problems(source, err):
    """independent judgement of "every line/column or offset an error reports lies within the input".
    offset: 0 <= position <= len(source in bytes) (the end of input is a legitimate place for an error);
    line: 1 <= line <= number of lines (text after the last newline counts as a line, also when empty);
    column: 1 <= column <= characters of that line + 1."""
    out = []
    nbytes = len(source.encode("utf-8"))
    if "position" in err:
        if not (0 <= err["position"] <= nbytes):
            out.append("offset %d outside the %d bytes of the input" % (err["position"], nbytes))
    if "end" in err and not (0 <= err["end"] <= nbytes):
        out.append("span end %d outside the %d bytes of the input" % (err["end"], nbytes))
    if err.get("variant") == "Located":
        ls = source.split("\n")
        line, col = err["line"], err["column"]
        if not (1 <= line <= len(ls)):
            out.append("line %d outside the %d lines of the input" % (line, len(ls)))
        elif not (1 <= col <= len(ls[line - 1]) + 1):
            out.append("column %d outside line %d (%d characters)" % (col, line, len(ls[line - 1])))
    return out
