"""C18 — multi-worker simulation gives the same results as a single worker."""
import collections
import concurrent.futures
import json
import os
import subprocess
import sys
import tempfile

from checks import dispatch_common as D
from vplib import coqtools, harness
from vplib.common import VERIF, sh

META = {
    "technique": "Coq proof (any bucket function of the key / any round-robin chunking gives the single-engine multiset, given per-key resp. per-event decomposability) + translator (is_stateless op list, partition_key source order, the distribution code of run_simulation) + the real `varpulis simulate` binary run with 1..8 workers, preload and streaming, output multisets compared; the decomposability hypothesis itself is tested per key on the same binary",
    "design_ref": "DESIGN.md §7 C18",
    "level_text": "Theorems C18_* in coq/theories/Simulate/Props.v: for every pipeline whose output is the per-event concatenation, every worker count and the CLI's chunking, the chunks' outputs are the single-engine output (C18_stateless); for every pipeline whose output is, as a multiset, the union over keys of its output on that key's events, EVERY bucket function of the key and every worker count give the single-engine multiset (C18_partitioned); every RuntimeOp kind accepted by Engine::is_stateless (list regenerated from the source on every run) is one this development classifies as per-event (C18_stateless_ops_per_event). Tied to the Rust by running the real CLI on generated programs and event files.",
    "level_note": "The decomposability of a concrete program (the hypothesis of the two theorems) is not proved here -- it is the subject of C04 for partitioned operators -- but tested: single-worker output = union of single-worker outputs per key. per_event is this development's classification of operator kinds, not derived from the operator code. rayon scheduling, stdout interleaving and DefaultHasher are not modelled (multiset comparison, theorem holds for every bucket function). The CLI collects outputs through a channel and prints them after a fixed 100 ms wait: a run whose summary lost lines under machine load is repeated (counted in the evidence).",
}
CONTRA = "C18_stateless / C18_partitioned (coq/theories/Simulate/Props.v)"
KNOWN_SESSION = "parallel-workers-skip-session-flush"


# ------------------------------------------------------------------ generation
def gen_stateless_stream(rng, name, srcs):
    ops = []
    for _ in range(rng.range(0, 2)):
        ops.append(["where", rng.range(0, 6)])
    if rng.chance(1, 8):
        ops = ops[:1] + [["process"]]
    elif rng.chance(5, 6) or not ops:
        ops.append(["emit"])
    return {"name": name, "kind": "pipe", "src": rng.choice(srcs), "ops": ops}


def gen_case(rng):
    """(program, events text, class of program, extra CLI args)"""
    kind = rng.choice(["stateless", "stateless", "partitioned", "partitioned", "partitioned", "mixed"])
    p = []
    extra = []
    if kind == "stateless":
        for i in range(rng.range(1, 3)):
            srcs = D.RAW[:2] + [s["name"] for s in p if any(o[0] == "emit" for o in s["ops"])]
            p.append(gen_stateless_stream(rng, "S%d" % (i + 1), srcs))
    else:
        n = rng.range(1, 2)
        need_flag = False
        for i in range(n):
            name = "S%d" % (i + 1)
            c = rng.below(8)
            if c <= 5:
                ops = ([["where", rng.range(0, 3)]] if rng.chance(1, 4) else []) + [["partition"]]
                w = rng.below(6)
                if w == 0:
                    ops.append(["window", rng.range(2, 3)])
                elif w == 1:
                    ops.append(["swindow", rng.range(2, 3), rng.range(1, 2)])
                elif w == 2:
                    ops.append(["twindow", rng.range(2, 5)])
                elif w == 3:
                    ops.append(["sltwindow", rng.range(3, 6), rng.range(1, 2)])
                elif w == 4:
                    ops.append(["session", rng.range(1, 3)])
                else:
                    ops.append(["window", 2])
                if rng.chance(4, 5):
                    ops.append(["agg"])
                elif w in (2, 3, 4):
                    need_flag = True         # time window without aggregate: the key is not auto-detected
                ops.append(["emit"])
                p.append({"name": name, "kind": "pipe", "src": rng.choice(D.RAW[:2]), "ops": ops})
            else:
                steps = [rng.choice(D.RAW[:2]), rng.choice(D.RAW[:2])] + ([rng.choice(D.RAW[:2])] if rng.chance(1, 3) else [])
                p.append({"name": name, "kind": "seq", "steps": steps, "corr": False, "emit": True, "part": True,
                          "all": rng.chance(1, 4)})
        if kind == "mixed":
            p.append(gen_stateless_stream(rng, "S%d" % (len(p) + 1), D.RAW[:2]))
        if need_flag or rng.chance(1, 3):
            extra = ["--partition-by", "k"]
    nev = rng.range(4, 40)
    lines = []
    t = 0
    strkeys = rng.chance(1, 4)
    nkeys = rng.range(1, 5)
    for i in range(nev):
        t += rng.choice([0, 1, 1, 1, 2, 5])
        k = rng.below(nkeys)
        kv = '"%s"' % "abcde"[k] if strkeys else str(k)
        lines.append("@%ds %s { x: %d, k: %s }" % (t, rng.choice(D.RAW[:2]), rng.range(0, 9), kv))
    return p, "\n".join(lines) + "\n", kind, extra


def classes_of(p, workers):
    cl = []
    if workers > 1 and any(op[0] == "session" for s in p for op in s.get("ops", [])):
        cl.append(KNOWN_SESSION)
    return cl


# --------------------------------------------------------------------- running
def run_cli_once(binpath, pv, pe, workers, preload, extra, quiet=False):
    cmd = [binpath, "simulate", "-p", pv, "-e", pe, "--immediate", "--workers", str(workers)] + (["--preload"] if preload else []) + list(extra) + (["--quiet"] if quiet else [])
    try:
        r = subprocess.run(cmd, capture_output=True, text=True, timeout=120)
    except subprocess.TimeoutExpired:
        return None, "timeout"
    if r.returncode != 0:
        return None, (r.stdout[-300:] + r.stderr[-300:])
    outs = [l[4:] for l in r.stdout.split("\n") if l.startswith("  - ")]
    declared = None
    for l in r.stdout.split("\n"):
        if l.startswith("Output events emitted:"):
            declared = int(l.split(":")[1])
    return collections.Counter(outs), declared


INCOMPLETE = "incomplete"


def run_cli(binpath, tmpdir, idx, vpl, evt, workers, preload, extra):
    """One configuration. The CLI prints the events its collector task has received 100 ms after the
    engines finished; under machine load that list can be short. The number of events the engines
    emitted is exact in --quiet mode (engine counters), so the listing is accepted only when it is
    complete, and repeated otherwise. Returns (Counter | None | INCOMPLETE, info)."""
    pv = os.path.join(tmpdir, "p%d.vpl" % idx)
    pe = os.path.join(tmpdir, "e%d.evt" % idx)
    open(pv, "w").write(vpl)
    open(pe, "w").write(evt)
    q, nq = run_cli_once(binpath, pv, pe, workers, preload, extra, quiet=True)
    if q is None:
        return None, nq
    last = None
    for _ in range(5):
        out, declared = run_cli_once(binpath, pv, pe, workers, preload, extra)
        if out is None:
            return None, declared
        last = out
        if sum(out.values()) == nq:
            return out, nq
    return INCOMPLETE, "listing had %d of %d events in 5 attempts" % (sum(last.values()), nq)


def check(run):
    run.rule = ("programs in the property's scope: stateless (where / emit / process over raw and derived stateless streams) or partitioned by k "
                "(partition_by(k) + count, sliding count, tumbling, sliding or session window (+ aggregate) + emit; sequences with partition_by(k)), "
                "optionally mixed, with or without --partition-by k; event files of 4..40 events over 1..5 int or string keys; the real CLI with "
                "workers 1 (preload) as reference vs 1 (streaming) and 2..8 workers in preload and streaming mode; per-key decomposition checked on "
                "the same binary; non-trivial = reference run has >= 2 outputs; distinct = distinct (program, events, flags)")
    run.trusted += ["Coq 8.16.1 kernel", "translate/stateless_ops.py (is_stateless / partition_key / run_simulation shapes)",
                    "the harness binary vp-simulate = crates/varpulis-cli/src/main.rs compiled with the CLI's dependency list",
                    "per_event: this development's classification of RuntimeOp kinds (Simulate/Model.v)",
                    "Python driver checks/C18.py (generator, parsing of the `Output Events Summary`)"]
    run.assumptions += ["outputs are read from the CLI's `Output Events Summary`; runs that lost lines to the fixed 100 ms drain wait are repeated",
                        "keys are scalar ints / strings (equal keys hash equally)"]
    t = sh([sys.executable, os.path.join(VERIF, "translate", "stateless_ops.py")], timeout=120)
    if t.returncode != 0:
        run.tie_broken("translator translate/stateless_ops.py (is_stateless op list / partition_key order / run_simulation distribution code)", t.stderr[-2000:])
    else:
        run.extra["translator"] = t.stdout.strip()
    coqtools.prove(run, ["theories/Simulate/Props.vo"], "C18.v")
    okb, bindir, blog = harness.build("vp-simulate")
    if not okb:
        run.tie_broken("harness build vp-simulate (the CLI binary)", blog[-3000:])
        return
    binpath = os.path.join(bindir, "vp-simulate")
    rng = run.rng
    n = 36 if run.tier == "quick" else 300    # thorough: ~15 min of CLI runs (each configuration = 1 --quiet run + listing runs)
    cases = [gen_case(rng) for _ in range(n)]
    # fixed witness of the known finding: partitioned session windows are flushed only by the single-worker path
    cases.insert(0, ([{"name": "S1", "kind": "pipe", "src": "A", "ops": [["partition"], ["session", 2], ["agg"], ["emit"]]}],
                     "".join("@%ds A { x: %d, k: %d }\n" % (t, i, i % 2) for i, t in enumerate([0, 1, 2, 3, 10, 11, 20, 21, 22, 30])), "partitioned", []))
    tmpdir = tempfile.mkdtemp(prefix="c18-", dir=os.path.join(VERIF, ".cache"))
    jobs = []   # (case index, tag, workers, preload, evt)
    for i, (p, evt, kind, extra) in enumerate(cases):
        jobs.append((i, "ref", 1, True, evt))
        jobs.append((i, "w1-stream", 1, False, evt))
        ws = [rng.choice([2, 3]), rng.choice([4, 5, 8])]
        for w in ws:
            jobs.append((i, "w%d-preload" % w, w, True, evt))
            jobs.append((i, "w%d-stream" % w, w, False, evt))
        if kind != "stateless" and i % 3 == 0:
            keys = sorted({l.split("k: ")[1].split(" ")[0] for l in evt.strip().split("\n")})
            for k in keys:
                sub = "".join(l + "\n" for l in evt.strip().split("\n") if l.split("k: ")[1].split(" ")[0] == k)
                jobs.append((i, "key=" + k, 1, True, sub))

    def do(job_idx):
        i, tag, w, pre, evt = jobs[job_idx]
        p, _, kind, extra = cases[i]
        return run_cli(binpath, tmpdir, i * 1000 + job_idx, D.vpl_program(p), evt, w, pre, extra)
    with concurrent.futures.ThreadPoolExecutor(max_workers=4) as ex:
        results = list(ex.map(do, range(len(jobs))))
    res = {}
    for (i, tag, w, pre, evt), r in zip(jobs, results):
        res.setdefault(i, {})[tag] = (r, w, pre, evt)
    n_fail = 0
    n_retry = 0
    for i, (p, evt, kind, extra) in enumerate(cases):
        run.count("kind=" + kind)
        run.count("flag=%s" % ("partition-by" if extra else "auto"))
        for s in p:
            run.count("stream=" + s["kind"])
            for op in s.get("ops", []):
                run.count("op=" + op[0])
        ref, _declared = res[i]["ref"][0]
        if ref == INCOMPLETE:
            run.count("incomplete-summary(reference)")
            run.case(None)
            continue
        if ref is None:
            run.count("program-rejected")
            if run.hist["program-rejected"] <= 2:
                run.tie_broken("CLI failed on a generated program", D.vpl_program(p) + str(_declared))
            run.case(None)
            continue
        nontrivial = json.dumps([p, evt, extra], sort_keys=True) if sum(ref.values()) >= 2 else None
        run.case(nontrivial, sample={"vpl": D.vpl_program(p), "events": evt[:300], "args": extra, "outputs": sum(ref.values())} if len(run.samples) < 3 and nontrivial else None)
        # per-key decomposition (hypothesis of C18_partitioned), single worker throughout
        keyruns = [(t, v) for t, v in res[i].items() if t.startswith("key=")]
        if keyruns and all(v[0][0] is not None and v[0][0] != INCOMPLETE for _, v in keyruns):
            union = collections.Counter()
            for _, v in keyruns:
                union += v[0][0]
            run.count("decomposition-checked")
            if union != ref:
                # retry once (lost summary lines)
                ref2, _ = run_cli(binpath, tmpdir, i * 1000 + 900, D.vpl_program(p), evt, 1, True, extra)
                if ref2 is not None and ref2 != INCOMPLETE and union != ref2:
                    run.tie_broken("per-key decomposability (hypothesis of C18_partitioned) does not hold for a generated program",
                                   D.vpl_program(p) + evt[:400] + "\nunion of per-key runs %s\nsingle run %s" % (sorted(union.elements())[:8], sorted(ref.elements())[:8]))
        for tag, ((out, declared), w, pre, _e) in res[i].items():
            if tag == "ref" or tag.startswith("key="):
                continue
            run.count("workers=%d" % w)
            run.count("mode=%s" % ("preload" if pre else "streaming"))
            if out == INCOMPLETE:
                run.count("incomplete-summary")
                continue
            if out is None:
                run.tie_broken("CLI failed with %d workers on a program it runs with 1 worker" % w, D.vpl_program(p) + str(declared))
                continue
            if out == ref:
                continue
            # repeat both runs before judging (the CLI's summary can lose lines under load)
            again = None
            for _attempt in range(2):
                n_retry += 1
                r1, _ = run_cli(binpath, tmpdir, i * 1000 + 901, D.vpl_program(p), evt, 1, True, extra)
                r2, _ = run_cli(binpath, tmpdir, i * 1000 + 902, D.vpl_program(p), evt, w, pre, extra)
                if r1 is not None and r1 == r2:
                    again = "equal"
                    break
                if r1 == INCOMPLETE or r2 == INCOMPLETE or r1 is None or r2 is None:
                    again = "incomplete"
                    continue
                again = (r1, r2)
                break
            if again == "equal":
                run.count("flaky(retried)")
                continue
            if again == "incomplete":
                run.count("incomplete-summary")
                continue
            r1, r2 = again
            n_fail += 1
            run.count("oracle_fail")
            missing = list(((r1 or ref) - (r2 or out or collections.Counter())).elements())[:4]
            extra_o = list(((r2 or out or collections.Counter()) - (r1 or ref)).elements())[:4]
            cl = classes_of(p, w)
            if n_fail <= 6 or not cl:
                run.violation("%d workers (%s) emit another multiset than 1 worker: missing %s, extra %s" % (w, "preload" if pre else "streaming", missing, extra_o),
                              {"vpl": D.vpl_program(p), "program": p, "events": evt, "args": extra, "workers": w, "preload": pre,
                               "single_worker": sorted((r1 or ref).elements()), "multi_worker": sorted((r2 or out or collections.Counter()).elements()),
                               "contradicts": CONTRA}, classes=cl)
    run.extra["oracle_failures"] = n_fail
    run.extra["retries"] = n_retry
    try:
        import shutil
        shutil.rmtree(tmpdir, ignore_errors=True)
    except Exception:
        pass


def replay(run, path):
    r = json.load(open(path))["replay"]
    ok, bindir, lg = harness.build("vp-simulate")
    binpath = os.path.join(bindir, "vp-simulate")
    tmpdir = tempfile.mkdtemp(prefix="c18r-", dir=os.path.join(VERIF, ".cache"))
    run.case(("replay",), {"replay": path})
    run.case(("replay2",))
    fails = 0
    for _ in range(2):
        a, _ = run_cli(binpath, tmpdir, 1, r["vpl"], r["events"], 1, True, r["args"])
        b, _ = run_cli(binpath, tmpdir, 2, r["vpl"], r["events"], r["workers"], r["preload"], r["args"])
        if a is not None and b is not None and a != INCOMPLETE and b != INCOMPLETE and a != b:
            fails += 1
    if fails == 2:
        run.violation("%d workers emit another multiset than 1 worker" % r["workers"], r, classes=classes_of(r["program"], r["workers"]))
