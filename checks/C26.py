"""C26 — splitting a program across execution contexts does not change its output."""
import json
import os

from checks import ctx_common as X
from vplib import harness

META = {
    "technique": "Coq proof over a labelled transition system of the context runtime (invariant by induction over every schedule) + trace validation of the real ContextRuntime driven poll by poll + real threaded ContextOrchestrator against the real context-free Engine",
    "design_ref": "DESIGN.md §7 C26",
    "level_text": "Theorems C26_* in coq/theories/Ctx/Props.v: for every program, capacity, number of contexts and schedule of the model (blocking forward = the code), what a context consumed from another followed by what waits in its inbox is exactly what was sent, in production order; no deadlock on acyclic context graphs; the try_send design is refuted by a 2-context capacity-1 schedule. The model is tied to context.rs by replaying generated schedules on the real ContextRuntime::run futures (polled by hand) and comparing outputs, inbox lengths and the routing table step by step",
    "level_note": "Proved: exactly-once in-order delivery for every schedule (model, blocking forward with tokio's waiter queue), refutation of the try_send design, deadlock freedom on ranked (acyclic) context graphs, macro steps of the harness are schedules of the model. NOT proved, tested only (oracle: per-stream output sequences equal those of the real Engine without contexts): the second sentence of the property (same multiset / per-stream order as the context-free program). Modelled, not verified: tokio mpsc = bounded FIFO whose send waits for room; thread interleaving = interleaving of the model's atomic steps (recv+process, one forward, one barrier send); engine restricted to stateless where/emit streams; output and ack channels unbounded. The wiring code of ContextOrchestrator::build_with_checkpoint (channel creation, thread spawn) is exercised only through the threaded 'orch' cases; the poll-by-poll cases rebuild it in the harness",
}

CLASS_FANOUT = "type-consumed-in-two-contexts"

WITNESS = {"prog": {"n": 2, "streams": [{"name": "S0", "src": "E0", "ctx": 0, "thr": 0}, {"name": "S1", "src": "S0", "ctx": 1, "thr": 0}]},
           "cap": 1,
           "sched": [("in", ("E0", 1, 5)), ("poll", 0), ("in", ("E0", 2, 5)), ("poll", 0), ("poll", 1), ("poll", 0), ("poll", 1), ("poll", 1)],
           "kind": "witness"}
# second regression case of the same fix: a stream fed by a stream of its own context must fire once
SELFROUTE = {"prog": {"n": 2, "streams": [{"name": "S0", "src": "E0", "ctx": 0, "thr": 0}, {"name": "S1", "src": "S0", "ctx": 0, "thr": 0},
                                          {"name": "S2", "src": "S1", "ctx": 1, "thr": 0}]},
             "cap": 4, "sched": [("in", ("E0", 1, 5)), ("poll", 0), ("poll", 1), ("poll", 0), ("poll", 1)], "kind": "witness"}


def gen_case(rng, fanout=False):
    prog = X.gen_program(rng, fanout=fanout)
    cap = rng.choice([1, 1, 1, 2, 2, 3, 8])
    sim = X.Sim(prog, cap)
    ins = X.input_types(prog)
    m = rng.range(3, 10)
    events = [(rng.choice(ins), i + 1, rng.below(10)) for i in range(m)]
    style = rng.below(3)
    sched = []

    def do(st):
        sched.append(st)
        sim.step(st)

    for e in events:
        if rng.chance(1, 6) and not sim.can_ingress(e):
            do(("in", e))                                  # rejected: inbox full
        tries = 0
        while not sim.can_ingress(e) and tries < 40:
            tries += 1
            if tries > 6:
                for c in reversed(range(sim.n)):
                    do(("poll", c))
            else:
                do(("poll", rng.below(sim.n)))
        do(("in", e))
        if style == 0:
            for _ in range(rng.below(3)):
                do(("poll", rng.below(sim.n)))
        elif style == 1:
            if rng.chance(2, 3):
                do(("poll", 0 if rng.chance(3, 4) else rng.below(sim.n)))
        else:
            for c in range(sim.n):
                do(("poll", c))
    X.finish_rounds(sim, sched)
    return {"prog": prog, "cap": cap, "sched": sched, "kind": "fanout" if fanout else ("burst" if style == 1 else "mix")}


def exhaustive_cases(maxlen):
    """every macro schedule up to maxlen over {input e1, input e2, poll c0, poll c1} on the 2-context pipeline with
    inbox capacity 1, each followed by polls to quiescence (inputs are taken in order: e2 only after e1)"""
    prog = WITNESS["prog"]
    out = []
    for seq in X.all_sequences(["in", "p0", "p1"], maxlen):
        sim = X.Sim(prog, 1)
        sched = []
        evs = [("E0", 1, 5), ("E0", 2, 5), ("E0", 3, 5)]
        for a in seq:
            if a == "in":
                if not evs:
                    break
                st = ("in", evs.pop(0))
            else:
                st = ("poll", int(a[1]))
            sched.append(st)
            sim.step(st)
        else:
            X.finish_rounds(sim, sched)
            out.append({"prog": prog, "cap": 1, "sched": sched, "kind": "exhaustive"})
    return out


def accepted_inputs(case, ans):
    return [m[1] for m, st in zip(case["sched"], ans["steps"]) if m[0] == "in" and st.get("r") == "ok"]


def judge(case, ans, ref_out):
    """Property text on the implementation's own observations: per-stream output sequences of the context run
    equal those of the same program without contexts on the inputs that were accepted."""
    if "panic" in ans or "error" in ans:
        return ["implementation failed: " + json.dumps(ans)[:300]]
    if not X.runs_to_quiescence(case):
        return []                      # the schedule stops with work left (e.g. a shrinking candidate): nothing to judge
    got = X.per_stream([tuple(e) for st in ans["steps"] for e in st["out"]])
    want = X.per_stream([tuple(e) for per in ref_out["out"] for e in per])
    fails = []
    for s in case["prog"]["streams"]:
        g, w = got.get(s["name"], []), want.get(s["name"], [])
        if g != w:
            lost = [x for x in w if x not in g]
            dup = sorted({x for x in g if g.count(x) > w.count(x)})
            fails.append("stream %s (context %s): with contexts %s, without contexts %s%s%s" % (
                s["name"], X.ctxname(s["ctx"]), g, w, "; lost %s" % lost if lost else "", "; duplicated/extra %s" % dup if dup else ""))
    return fails


def classes_of(case):
    return [CLASS_FANOUT] if X.fanout_types(case["prog"]) else []


def orch_cases(rng, n):
    out = []
    for i in range(n):
        prog = X.gen_program(rng)
        ins = X.input_types(prog)
        evs = [(rng.choice(ins), k + 1, rng.below(10)) for k in range(rng.range(10, 40))]
        out.append({"prog": prog, "cap": [1, 1, 2, 1000][i % 4], "events": evs})
    return out


def check(run):
    run.rule = ("random programs (2-3 contexts, 2-6 where/emit streams, acyclic context graph, thresholds 0/3/5) x inbox capacity 1-8 x "
                "poll-level schedules (mixed, bursts that fill the downstream inbox, orderly) on the real ContextRuntime; the capacity-1 witness of "
                "C26_delivery_trysend_refuted; programs with a type consumed in two contexts (known class); threaded ContextOrchestrator runs with capacity 1/2/1000. "
                "non-trivial = some event crossed a context boundary and an inbox was full at some step; distinct = distinct (program, capacity, schedule)")
    run.trusted += ["Coq 8.16.1 kernel + vm_compute", "hand-written model coq/theories/Ctx/Model.v (tied by step-by-step trace comparison: outputs, inbox lengths, routing table)",
                    "harness/crates/ctx (rebuilds the per-context wiring of build_with_checkpoint, polls ContextRuntime::run by hand), checks/ctx_common.py (generator, simulator)",
                    "tokio::sync::mpsc modelled as a bounded FIFO whose blocked senders queue FIFO and are handed freed slots (observable through Sender::capacity and try_send)"]
    run.assumptions += ["output channel and engine output channel never full (capacities 2^20 / 1000 in the runs)",
                        "context graphs are acyclic (a cyclic graph with full inboxes can block; C26_no_deadlock_acyclic needs the rank hypothesis)"]
    binpath = X.build(run, "C26.v")
    if binpath is None:
        return
    rng = run.rng
    nrand = 120 if run.tier == "quick" else 4000
    cases = [WITNESS, SELFROUTE] + [gen_case(rng) for _ in range(nrand)] + [gen_case(rng, fanout=True) for _ in range(nrand // 10)]
    cases += exhaustive_cases(3 if run.tier == "quick" else 7)
    with X.Phase(run, "implementation runs (poll by poll)"):
        answers = X.run_direct(binpath, cases)
    with X.Phase(run, "model runs (vm_compute)"):
        try:
            models = X.run_model("C26", cases)
        except RuntimeError as ex:
            run.tie_broken("model evaluation (coqc)", str(ex))
            models = None
    refs = X.run_ref(binpath, [(c["prog"], accepted_inputs(c, a) if "steps" in a else []) for c, a in zip(cases, answers)])
    nfail = 0
    ntie = 0
    for k, (case, ans, ref) in enumerate(zip(cases, answers, refs)):
        run.count("kind:" + case["kind"])
        run.count("cap:%d" % case["cap"])
        run.count("contexts:%d" % case["prog"]["n"])
        sim_ok = True
        if models is not None and ntie < 3:
            ok, sim, parts = X.correspond(run, case, ans, models[k], "C26")
            if not ok:
                ntie += 1
            elif parts[2].split(";")[0] != "D=1":
                run.tie_broken("C26: model run violates delivery_exact (contradicts C26_delivery)", X.describe(case))
            elif sim is not None and not sim.delivery_exact():
                run.tie_broken("C26: simulator run violates delivery_exact", X.describe(case))
        full = "steps" in ans and any(st.get("r") == "full" for st in ans["steps"]) or any(
            "steps" in ans and max(st["inbox"]) >= case["cap"] for st in ans.get("steps", []))
        crossed = "steps" in ans and any(st["out"] for st in ans["steps"])
        # cross-check the reference: Python BFS vs the real context-free Engine
        if "out" in ref and "steps" in ans:
            mine = [[list(x) for x in X.engine(case["prog"]["streams"], e)] for e in accepted_inputs(case, ans)]
            if mine != ref["out"]:
                run.tie_broken("C26: Ctx.Model.engine (Python restatement) vs real Engine without contexts",
                               "%s\n engine: %s\n python: %s" % (X.describe(case), ref["out"], mine))
        fails = judge(case, ans, ref) if "out" in ref else ["reference run failed: " + json.dumps(ref)[:300]]
        run.case((k,) if (full and crossed) else None,
                 {"cap": case["cap"], "streams": [(s["name"], s["src"], s["ctx"], s["thr"]) for s in case["prog"]["streams"]], "steps": len(case["sched"])})
        if fails:
            nfail += 1
            if nfail <= 3:
                def still(c):
                    a = X.run_direct(binpath, [c])[0]
                    r = X.run_ref(binpath, [(c["prog"], accepted_inputs(c, a))])[0]
                    return bool(judge(c, a, r))
                small = X.shrink_sched(case, still) if not classes_of(case) else case
                a = X.run_direct(binpath, [small])[0]
                r = X.run_ref(binpath, [(small["prog"], accepted_inputs(small, a))])[0]
                f2 = judge(small, a, r) or fails
                run.violation("; ".join(f2)[:700],
                              {"case": small, "vpl": X.vpl(small["prog"]), "implementation": a, "without_contexts": r,
                               "contradicts": "C26_delivery in coq/theories/Ctx/Props.v / property text (per-stream output of the context-free engine)"},
                              classes=classes_of(small))
    run.extra["oracle_failures"] = nfail

    # ---- the real threaded orchestrator
    ocs = orch_cases(rng, 12 if run.tier == "quick" else 60)
    orefs = X.run_ref(binpath, [(c["prog"], c["events"]) for c in ocs])
    reqs = []
    for c, r in zip(ocs, orefs):
        expect = sum(len(p) for p in r["out"])
        reqs.append({"mode": "orch", "vpl": X.vpl(c["prog"]), "cap": c["cap"], "events": [list(e) for e in c["events"]],
                     "expect": expect, "timeout_ms": 45000, "grace_ms": 200})
    with X.Phase(run, "threaded orchestrator runs"):
        oans = harness.run_jsonl(binpath, reqs, timeout=2400)
    for c, r, a in zip(ocs, orefs, oans):
        run.count("kind:threaded")
        run.count("cap:%d" % c["cap"])
        run.case(("orch", json.dumps(c, sort_keys=True)[:200]))
        if "out" not in a:
            run.tie_broken("C26: threaded orchestrator run failed", json.dumps(a)[:400])
            continue
        got = X.per_stream([tuple(e) for e in a["out"]])
        want = X.per_stream([tuple(e) for per in r["out"] for e in per])
        bad = [s["name"] for s in c["prog"]["streams"] if got.get(s["name"], []) != want.get(s["name"], [])]
        if bad:
            s0 = bad[0]
            run.violation("threaded ContextOrchestrator (inbox capacity %d): stream %s emits %s, without contexts %s" % (c["cap"], s0, got.get(s0, []), want.get(s0, [])),
                          {"orch_case": c, "vpl": X.vpl(c["prog"]), "implementation": a, "without_contexts": r,
                           "contradicts": "property text: same per-stream output as the context-free program"},
                          classes=classes_of(c))


def replay(run, path):
    r = json.load(open(path))["replay"]
    ok, bindir, lg = harness.build("vp-ctx")
    binpath = os.path.join(bindir, "vp-ctx")
    run.case(("replay",))
    run.case(("replay2",))
    if "case" in r:
        c = r["case"]
        c["sched"] = [tuple(m[:1]) + tuple(tuple(x) if isinstance(x, list) else x for x in m[1:]) for m in c["sched"]]
        a = X.run_direct(binpath, [c])[0]
        ref = X.run_ref(binpath, [(c["prog"], accepted_inputs(c, a))])[0]
        fails = judge(c, a, ref)
        if fails:
            run.violation("; ".join(fails)[:700], {"case": c, "implementation": a}, classes=classes_of(c))
    else:
        c = r["orch_case"]
        ref = X.run_ref(binpath, [(c["prog"], c["events"])])[0]
        a = harness.run_jsonl(binpath, [{"mode": "orch", "vpl": X.vpl(c["prog"]), "cap": c["cap"], "events": [list(e) for e in c["events"]],
                                         "expect": sum(len(p) for p in ref["out"]), "timeout_ms": 45000, "grace_ms": 200}])[0]
        got = X.per_stream([tuple(e) for e in a.get("out", [])])
        want = X.per_stream([tuple(e) for per in ref["out"] for e in per])
        if got != want:
            run.violation("threaded orchestrator output differs from the context-free engine", {"orch_case": c, "implementation": a}, classes=classes_of(c))
