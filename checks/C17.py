"""C17 — each stream processes each routed event exactly once."""
import json
from collections import Counter

from checks import dispatch_common as D

META = {
    "technique": "Coq proof (hand-offs = the due ones of the queue entries taken; queue entries = inputs + everything queued, as a permutation; routing table duplicate-free and exact) + translator for MAX_CHAIN_DEPTH + model/impl differential on the hook's delivery trace + counting oracle against a reference routing written from the language",
    "design_ref": "DESIGN.md §7 C17",
    "level_text": "Theorems C17_* in coq/theories/Dispatch/Props.v: on every entry point, for every routing table, stream family, input and batch split, the sequence of hand-offs is exactly one per (queue entry below the depth limit, stream routed for its type that exists), in order, and the queue entries are exactly the inputs at depth 0 plus every queued output at depth+1; add_route/load never list a stream twice and route a stream for a type iff it registered for it. Tied to the Rust by a differential run (trace from the cfg(varpulis_verif) hook) on every check.",
    "level_note": "The model takes each stream's registration list (which types register_stream adds routes for) as data; that this list is what the language says a stream consumes is checked by the Python reference consumes() against the real routing table and the real deliveries, not proved. Stream pipelines are abstract. MAX_CHAIN_DEPTH = 10 is extracted from the four copies in the source by translate/chain_depth.py.",
}
DOCUMENTED_DEPTH = 10
CONTRA = "C17_exactly_once / C17_due_exactly_once / C17_router_of_program (coq/theories/Dispatch/Props.v)"

CORPUS = [
    # DESIGN §10: S1 passes A through un-renamed; the sync path re-delivered it to S1 and S2 ten times
    ([{"name": "S1", "kind": "pipe", "src": "A", "ops": [["where", 0]]},
      {"name": "S2", "kind": "pipe", "src": "A", "ops": [["emit"]]}], [("A", 1, 0)], [1]),
    # diamond
    ([{"name": "S1", "kind": "pipe", "src": "A", "ops": [["emit"]]},
      {"name": "S2", "kind": "pipe", "src": "S1", "ops": [["where", 2], ["emit"]]},
      {"name": "S3", "kind": "pipe", "src": "S1", "ops": [["emit"]]},
      {"name": "S4", "kind": "merge", "srcs": ["S2", "S3"], "ops": [["emit"]]}], [("A", 1, 0), ("A", 5, 1)], [2]),
    # self-named type: S1 consumes its own output up to the depth limit
    ([{"name": "S1", "kind": "pipe", "src": "S1", "ops": [["emit"]]},
      {"name": "S2", "kind": "pipe", "src": "S1", "ops": [["where", 0]]}], [("S1", 3, 0)], [1]),
    # window without emit and without consumers, next to a consumer of the same raw type
    ([{"name": "S1", "kind": "pipe", "src": "A", "ops": [["window", 2]]},
      {"name": "S2", "kind": "pipe", "src": "A", "ops": [["where", 0], ["emit"]]},
      {"name": "S3", "kind": "pipe", "src": "S2", "ops": [["process"]]}], [("A", 1, 0), ("A", 2, 0), ("A", 3, 1)], [1, 2]),
]


def judge_one(p, evs, ans, mode):
    """Counting oracle from the property text. An 'event' is an external input (depth 0) or an output a
    stream produced under its own name (depth of its cause + 1). Each must be handed exactly once to every
    stream that consumes its type (reference: D.consumes), never to another stream; nothing else may be
    handed to anybody."""
    if "panic" in ans:
        return ["implementation panicked: " + ans["panic"]]
    if not D.answer_ok(ans):
        return ["entry point returned an error: " + json.dumps(ans)[:300]]
    it = D.Interner(e["ts_ns"] for e in evs)
    cons = dict(D.consumes(p))
    trace = D.all_trace(ans)
    occ = Counter()
    example = {}
    for e in evs:
        k = (e["type"], it.canon_body(e), 0)
        occ[k] += 1
        example[k] = e
    for d in trace:
        for o in d["outputs"]:
            if o["type"] == d["stream"]:
                k = (o["type"], it.canon_body(o), d["depth"] + 1)
                occ[k] += 1
                example[k] = o
    got = Counter((d["stream"], d["event"]["type"], it.canon_body(d["event"]), d["depth"]) for d in trace)
    fails = []
    for (t, b, dep), n in occ.items():
        if dep >= DOCUMENTED_DEPTH:
            continue
        for s in cons:
            want = n if t in cons[s] else 0
            g = got.get((s, t, b, dep), 0)
            if g != want:
                fails.append("%s: event %s at depth %d (%d occurrence(s)) was processed %d time(s) by stream %s, which %s type %s" % (
                    mode, D.short_event(example[(t, b, dep)]), dep, n, g, s, "consumes" if want else "does not consume", t))
    for (s, t, b, dep), g in got.items():
        if (t, b, dep) not in occ:
            fails.append("%s: stream %s processed %d time(s) an event of type %s at depth %d that is neither an input nor an output of a stream under its name" % (mode, s, g, t, dep))
        if s not in cons:
            fails.append("%s: delivery to unknown stream %s" % (mode, s))
    return fails[:6]


def judge(case, answers):
    p, evs, sizes = case
    fails = []
    for m, a in zip(D.MODES, answers):
        fails += judge_one(p, evs, a, {"event": "process", "batch": "process_batch", "sync": "process_batch_sync"}[m])
    # the routing table itself: no stream twice, exactly the reference registrations (order is left to the model comparison)
    a = answers[0]
    if "routes" in a:
        exp = D.expected_routes(p)
        got = {t: ss for t, ss in a["routes"]}
        for t, ss in got.items():
            if len(set(ss)) != len(ss):
                fails.append("routing table lists a stream twice for %s: %s" % (t, ss))
        if {t: sorted(ss) for t, ss in got.items()} != {t: sorted(ss) for t, ss in exp.items()}:
            fails.append("routing table %s differs from the reference %s (who consumes what)" % (got, exp))
    return fails


def gen_cases(run):
    rng = run.rng
    cases = [((p, D.mk_events(evs), sizes), "corpus") for p, evs, sizes in CORPUS]
    n = 130 if run.tier == "quick" else 3000
    for i in range(n):
        shape = ["chain", "diamond", "noemit", "free", "mixed", "chain", "diamond"][i % 7]
        p, shape = D.gen_program(rng, 5, shape)
        if rng.chance(1, 6):
            # self-named type: some stream consumes its own name
            s = rng.choice(p)
            if s["kind"] == "pipe":
                s["src"] = s["name"]
        evs = D.gen_events(rng, p, rng.range(1, 7))
        cases.append(((p, evs, D.gen_split(rng, len(evs))), shape))
    return cases


def check(run):
    run.rule = ("programs of 1..5 streams (chains, diamonds over merge/join/pipe, streams without emit and without consumers, .process(), "
                "self-named and forward sources) x 1..7 random events (sometimes carrying a stream's name) x random batch split, on process, "
                "process_batch and process_batch_sync; non-trivial = a delivery at depth >= 1 or >= 2 streams reached, and >= 1 output; "
                "distinct = distinct (program, events, split)")
    binpath = D.build_all(run, "C17.v")
    if binpath is None:
        return
    D.three_way_check(run, binpath, gen_cases(run), judge, "C17", CONTRA)


def replay(run, path):
    D.replay_three(run, path, judge, CONTRA)
