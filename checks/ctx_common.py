"""Shared machinery for C26 / C27 (crates/varpulis-runtime/src/context.rs).

Pipeline: Coq build + audit -> harness build -> generated (program, capacity, macro schedule) cases ->
real ContextRuntime / CheckpointCoordinator driven poll by poll by harness/crates/ctx (mode "direct"),
real threaded ContextOrchestrator (mode "orch"), real context-free Engine (mode "ref") ->
model run by vm_compute (Ctx/Run.v ctx_case) -> Python simulator (independent re-statement, used to steer
schedules and to compute which inputs are replayed) -> three-way comparison + oracles on the implementation's
own observations.

Programs: streams `S_k = <src> .context(c) .where(v >= thr) .emit(id: id, v: v)`; src is a raw event type
E0/E1 or an earlier stream; events carry integer fields id (unique per input event, preserved by every
stream) and v.  Type ids in the model: E_j -> j, S_k -> 100 + k.
"""
import json
import os
import time

from vplib import coqtools, harness
from vplib.common import log

IMPORTS = ("From Coq Require Import String.\nFrom VP Require Import Base.Tactics Base.Render Ctx.Model Ctx.Run.\n"
           "Open Scope string_scope.\n"
           "Definition S (a b : N) (c : nat) (t : Z) := Build_stream a b c t.\n"
           "Definition E (t : N) (i v : Z) := Build_event t i v.\n")


BLOCK = True     # the code forwards with send().await; False = the try_send design (scratch experiments only)


def tyid(name):
    return int(name[1:]) if name[0] == "E" else 100 + int(name[1:])


def ctxname(c):
    return "c%d" % c


# ------------------------------------------------------------------ programs
def vpl(prog, with_ctx=True):
    s = ""
    if with_ctx:
        s += "".join("context %s\n" % ctxname(c) for c in range(prog["n"])) + "\n"
    for st in prog["streams"]:
        s += "stream %s = %s\n" % (st["name"], st["src"])
        if with_ctx:
            s += "    .context(%s)\n" % ctxname(st["ctx"])
        s += "    .where(v >= %d)\n    .emit(id: id, v: v)\n\n" % st["thr"]
    return s


def g_prog(prog):
    return "[" + "; ".join("S %d %d %d%%nat (%d)%%Z" % (tyid(s["name"]), tyid(s["src"]), s["ctx"], s["thr"]) for s in prog["streams"]) + "]"


def g_event(e):
    return "(E %d (%d)%%Z (%d)%%Z)" % (tyid(e[0]), e[1], e[2])


def all_types(prog):
    ts = []
    for s in prog["streams"]:
        for t in (s["src"], s["name"]):
            if t not in ts:
                ts.append(t)
    return sorted(ts, key=tyid)


def route(prog, ty):
    """ingress_routing of ContextOrchestrator::build_with_checkpoint: the last stream (declaration order) wins."""
    r = None
    for s in prog["streams"]:
        if s["src"] == ty:
            r = s["ctx"]
    return r


def fanout_types(prog):
    """event types consumed by streams of two different contexts"""
    out = []
    for t in all_types(prog):
        cs = {s["ctx"] for s in prog["streams"] if s["src"] == t}
        if len(cs) > 1:
            out.append(t)
    return out


def ctx_of_stream(prog, name):
    for s in prog["streams"]:
        if s["name"] == name:
            return s["ctx"]
    return None


def has_cross_edge(prog):
    return any(ctx_of_stream(prog, s["src"]) is not None and ctx_of_stream(prog, s["src"]) != s["ctx"] and route(prog, s["src"]) == s["ctx"]
               for s in prog["streams"])


def context_graph_acyclic(prog):
    edges = set()
    for s in prog["streams"]:
        t = route(prog, s["name"])
        if t is not None and t != s["ctx"]:
            edges.add((s["ctx"], t))
    return all(a < b for a, b in edges)


def gen_program(rng, fanout=False, allpass=False, n=None, kmax=6):
    for _ in range(50):
        n_ctx = n or rng.range(2, 3)
        k = rng.range(2, kmax)
        nraw = rng.range(1, 2)
        streams = []
        for i in range(k):
            if i == 0 or rng.chance(1, 3):
                src = "E%d" % rng.below(nraw)
                lo = 0
            else:
                j = rng.below(i)
                src = streams[j]["name"]
                lo = streams[j]["ctx"]
            existing = [s["ctx"] for s in streams if s["src"] == src]
            if existing and not (fanout and rng.chance(1, 2)):
                c = existing[0]
            elif lo < n_ctx - 1 and rng.chance(2, 3):
                c = rng.range(lo + 1, n_ctx - 1)
            else:
                c = rng.range(lo, n_ctx - 1)
            thr = 0 if allpass else rng.choice([0, 0, 3, 5])
            streams.append({"name": "S%d" % i, "src": src, "ctx": c, "thr": thr})
        prog = {"n": n_ctx, "streams": streams}
        if has_cross_edge(prog) and context_graph_acyclic(prog) and (fanout or not fanout_types(prog)):
            return prog
    return {"n": 2, "streams": [{"name": "S0", "src": "E0", "ctx": 0, "thr": 0}, {"name": "S1", "src": "S0", "ctx": 1, "thr": 0}]}


def input_types(prog):
    return [t for t in all_types(prog) if t[0] == "E" and route(prog, t) is not None]


# ---------------------------------------------------------------- reference engine (no contexts)
def fire(s, e):
    return [(s["name"], e[1], e[2])] if s["src"] == e[0] and s["thr"] <= e[2] else []


def engine(streams, e):
    out = []
    level = [tuple(e)]
    for _ in range(10):
        nxt = [x for ev in level for s in streams for x in fire(s, ev)]
        out += nxt
        level = nxt
    return out


def per_stream(events):
    d = {}
    for t, i, v in events:
        d.setdefault(t, []).append((i, v))
    return d


# ---------------------------------------------------------------- simulator (Python re-statement of the LTS)
class Sim:
    def __init__(self, prog, cap, block=True):
        self.prog = prog
        self.n = prog["n"]
        self.cap = cap
        self.block = block
        self.store = []
        self.reset(None)

    def reset(self, cp):
        self.inbox = [[] for _ in range(self.n)]      # ("ev", src, event) | ("bar", id)
        self.outq = [[] for _ in range(self.n)]
        self.consumed = [0] * self.n
        self.recv = [[] for _ in range(self.n)]        # (src, event)
        self.sent = [[] for _ in range(self.n)]        # (target, event)
        self.wq = [[] for _ in range(self.n)]          # per inbox: contexts blocked in send().await, FIFO
        self.rs = [[] for _ in range(self.n)]          # per inbox: waiters that were handed a freed slot
        self.ackq = []
        self.next_id = 1
        self.pending = None
        self.ncompleted = 0
        self.last_cp = None
        if cp:
            for c, sn in cp.items():
                self.consumed[c] = sn["consumed"]
                self.recv[c] = list(sn["recv"])
                self.sent[c] = list(sn["sent"])

    def room(self, c):
        return len(self.inbox[c]) + len(self.rs[c]) < self.cap

    def can_ingress(self, e):
        t = route(self.prog, e[0])
        return t is not None and self.room(t)

    def quiescent(self):
        return all(not self.inbox[c] and not self.outq[c] for c in range(self.n))

    def idle_data(self):
        """no data message anywhere (barriers may be waiting)"""
        return all(not self.outq[c] and all(m[0] == "bar" for m in self.inbox[c]) for c in range(self.n))

    def _poll(self, c):
        outs = []
        for _ in range(400):
            if self.outq[c]:
                e = self.outq[c][0]
                t = route(self.prog, e[0])
                if t is not None and t != c:
                    if c in self.rs[t]:
                        self.rs[t].remove(c)
                        self.inbox[t].append(("ev", c, e))
                    elif c in self.wq[t]:
                        break
                    elif self.room(t):
                        self.inbox[t].append(("ev", c, e))
                    elif self.block:
                        self.wq[t].append(c)
                        break
                    self.sent[c].append((t, e))
                self.outq[c].pop(0)
                outs.append(e)
            elif self.inbox[c]:
                m = self.inbox[c].pop(0)
                if self.wq[c]:
                    self.rs[c].append(self.wq[c].pop(0))
                if m[0] == "ev":
                    self.consumed[c] += 1
                    self.recv[c].append((m[1], m[2]))
                    self.outq[c] = engine([s for s in self.prog["streams"] if s["ctx"] == c], m[2])
                else:
                    self.ackq.append((c, m[1], {"consumed": self.consumed[c], "recv": list(self.recv[c]), "sent": list(self.sent[c])}))
            else:
                break
        return outs

    def obs(self, r, outs):
        return "%s;%s;%s" % (r, ",".join("%d:%d:%d" % (tyid(t), i, v) for t, i, v in outs), ",".join(str(len(self.inbox[c]) + len(self.rs[c])) for c in range(self.n)))

    def consumed_str(self, cp):
        return ",".join(str(cp[c]["consumed"]) if cp and c in cp else "-" for c in range(self.n))

    def step(self, m):
        k = m[0]
        if k == "in":
            e = tuple(m[1])
            t = route(self.prog, e[0])
            if t is None:
                return self.obs("unrouted", [])
            if not self.room(t):
                return self.obs("full", [])
            self.inbox[t].append(("ev", None, e))
            return self.obs("ok", [])
        if k == "poll":
            return self.obs("-", self._poll(m[1]))
        if k == "init":
            if self.pending is not None:
                return self.obs("already-pending", [])
            self.pending = {"id": self.next_id, "acks": {}}
            self.next_id += 1
            for c in range(self.n):
                if self.room(c):
                    self.inbox[c].append(("bar", self.pending["id"]))
            return self.obs("ok", [])
        if k == "complete":
            while self.ackq:
                c, i, sn = self.ackq.pop(0)
                if self.pending is not None and i == self.pending["id"]:
                    self.pending["acks"][c] = sn
                    if len(self.pending["acks"]) == self.n:
                        cp = self.pending["acks"]
                        self.pending = None
                        self.store.append(cp)
                        self.ncompleted += 1
                        self.last_cp = cp
                        return self.obs("completed", []) + ";" + self.consumed_str(cp)
            return self.obs("pending", [])
        if k == "restore":
            cp = self.store[-1] if self.store else None
            self.reset(cp)
            return self.obs("restored", []) + ";" + self.consumed_str(cp)
        raise ValueError(k)

    def delivery_exact(self):
        for a in range(self.n):
            for b in range(self.n):
                if a != b:
                    got = [e for s, e in self.recv[b] if s == a] + [m[2] for m in self.inbox[b] if m[0] == "ev" and m[1] == a]
                    if got != [e for t, e in self.sent[a] if t == b]:
                        return False
        return True

    @staticmethod
    def cut_consistent(cp, n):
        for a in range(n):
            for b in range(n):
                if a != b and a in cp and b in cp:
                    if [e for s, e in cp[b]["recv"] if s == a] != [e for t, e in cp[a]["sent"] if t == b]:
                        return False
        return True


# ---------------------------------------------------------------- requests / rendering
def macro_req(m):
    if m[0] == "in":
        return {"k": "ingress", "e": list(m[1])}
    if m[0] == "poll":
        return {"k": "poll", "c": ctxname(m[1])}
    return {"k": m[0]}


def g_macro(m):
    if m[0] == "in":
        return "MIngress " + g_event(m[1])
    if m[0] == "poll":
        return "MPoll %d%%nat" % m[1]
    return {"init": "MInit", "complete": "MComplete", "restore": "MRestore"}[m[0]]


def direct_req(case):
    prog = case["prog"]
    return {"mode": "direct", "vpl": vpl(prog), "contexts": [ctxname(c) for c in range(prog["n"])], "cap": case["cap"],
            "steps": [macro_req(m) for m in case["sched"]]}


def g_case(case):
    prog = case["prog"]
    return "ctx_case %d%%nat %d%%nat %s %s [%s] [%s]" % (
        prog["n"], case["cap"], "true" if BLOCK else "false", g_prog(prog), "; ".join("%d%%N" % tyid(t) for t in all_types(prog)),
        "; ".join(g_macro(m) for m in case["sched"]))


def impl_obs(prog, step_req, st):
    k = step_req["k"]
    outs = ",".join("%d:%d:%d" % (tyid(t), i, v) for t, i, v in st["out"])
    inbox = ",".join(str(x) for x in st["inbox"])
    r = st.get("r")
    extra = ""
    if k == "poll":
        r = r or "-"
    elif k == "complete" and "cp" in st:
        extra = ";" + ",".join("-" if x is None else str(x) for x in st["cp"]["consumed"])
    elif k == "restore":
        cons = r["consumed"] if isinstance(r, dict) else [None] * prog["n"]
        extra = ";" + ",".join("-" if x is None else str(x) for x in cons)
        r = "restored"
    return "%s;%s;%s%s" % (r, outs, inbox, extra)


def impl_route_str(prog, ans):
    table = {t: c for t, c in ans["routing"]}
    return ",".join("%d>%s" % (tyid(t), table[t][1:] if t in table else "none") for t in all_types(prog))


def describe(case):
    return "cap=%d sched=%s\n%s" % (case["cap"], " ".join(m[0] if len(m) == 1 else "%s(%s)" % (m[0], m[1] if m[0] == "poll" else ":".join(map(str, m[1]))) for m in case["sched"]),
                                    vpl(case["prog"]))


# ---------------------------------------------------------------- build
class Phase:
    """wall-clock per phase, kept in the evidence file (the box is shared: builds wait on locks)"""

    def __init__(self, run, name):
        self.run, self.name = run, name

    def __enter__(self):
        self.t = time.time()

    def __exit__(self, *a):
        d = self.run.extra.setdefault("phase_s", {})
        d[self.name] = round(d.get(self.name, 0) + time.time() - self.t, 1)
        log("  [%s] %s: %.1fs" % (self.run.pid, self.name, time.time() - self.t))


def build(run, audit_file, targets=("theories/Ctx/Props.vo",), allow_axioms=()):
    with Phase(run, "coq build + audit"):
        coqtools.prove(run, list(targets), audit_file, allow_axioms=allow_axioms)
        ok, lg = coqtools.make(["theories/Ctx/Run.vo"])
    if not ok:
        run.tie_broken("model build (Ctx/Run.vo)", lg[-2000:])
        return None
    with Phase(run, "cargo build vp-ctx (shared target dir, waits for its lock)"):
        ok, bindir, lg = harness.build("vp-ctx")
    if not ok:
        run.tie_broken("harness build (vp-ctx)", lg[-3000:])
        return None
    return os.path.join(bindir, "vp-ctx")


def run_direct(binpath, cases):
    return harness.run_jsonl(binpath, [direct_req(c) for c in cases], timeout=2400)


def run_ref(binpath, jobs):
    """jobs: list of (prog, events) -> list of per-input output lists from the real context-free Engine"""
    reqs = [{"mode": "ref", "vpl": vpl(p, with_ctx=False), "events": [list(e) for e in evs]} for p, evs in jobs]
    return harness.run_jsonl(binpath, reqs, timeout=1200)


def run_model(tag, cases):
    exprs = [g_case(c) for c in cases]
    # starting a coqc and loading the libraries costs more than 20 cases: few large shards in the quick tier
    nshards = 6 if len(exprs) < 600 else 16
    return coqtools.coq_eval(tag, IMPORTS, exprs, shard=max(4, len(exprs) // nshards + 1), timeout=3000)


def all_sequences(alphabet, maxlen):
    out = [[]]
    frontier = [[]]
    for _ in range(maxlen):
        frontier = [s + [a] for s in frontier for a in alphabet]
        out += frontier
    return out


def digest(s):
    h = 7
    for ch in s.encode():
        h = (h * 131 + ch) % 2305843009213693951
    return h


def correspond(run, case, ans, model_str, what):
    """Compares implementation, model and simulator step by step. Returns (ok, sim, parts-of-model-string)."""
    prog = case["prog"]
    if "panic" in ans or "error" in ans:
        run.tie_broken("%s: implementation run failed" % what, "%s\n%s" % (describe(case), json.dumps(ans)[:500]))
        return False, None, None
    parts = model_str.split("#")
    sim = Sim(prog, case["cap"], block=BLOCK)
    steps = [macro_req(m) for m in case["sched"]]
    s_obs = [sim.step(m) for m in case["sched"]]
    i_obs = [impl_obs(prog, steps[k], ans["steps"][k]) for k in range(len(steps))]
    ok = True
    if str(digest("|".join(i_obs))) != parts[0] or s_obs != i_obs:
        # ask the model for the full trace of this case only
        try:
            full = coqtools.coq_eval("ctxfull", IMPORTS, [g_case(case).replace("ctx_case ", "ctx_case_full ", 1)], shard=1, timeout=900)[0]
            m_obs = full.split("#")[0].split("|")
        except RuntimeError as ex:
            m_obs = ["<model evaluation failed: %s>" % str(ex)[:200]]
        k = next((k for k in range(len(steps)) if k >= len(m_obs) or i_obs[k] != m_obs[k] or s_obs[k] != m_obs[k]), len(steps) - 1)
        run.tie_broken("%s: Ctx/Model.v vs context.rs at step %d (%s)" % (what, k, json.dumps(steps[k])),
                       "%s\n implementation: %s\n model:          %s\n simulator:      %s" % (
                           describe(case), i_obs[k], m_obs[k] if k < len(m_obs) else "<missing>", s_obs[k]))
        ok = False
    ir = impl_route_str(prog, ans)
    if ir != parts[1]:
        run.tie_broken("%s: routing table (Ctx.Model.route vs ContextOrchestrator::ingress_routing)" % what,
                       "%s\n implementation: %s\n model:          %s" % (describe(case), ir, parts[1]))
        ok = False
    return ok, sim, parts


def runs_to_quiescence(case):
    """does the schedule, run by the simulator, end with every inbox and engine output queue empty?"""
    sim = Sim(case["prog"], case["cap"], block=BLOCK)
    for m in case["sched"]:
        sim.step(tuple(m))
    return sim.quiescent()


def finish_rounds(sim, sched, extra=1):
    """poll every context (sinks first) until the simulator is quiescent, plus extra full rounds"""
    for _ in range(60):
        if sim.quiescent():
            break
        for c in reversed(range(sim.n)):
            sched.append(("poll", c))
            sim.step(("poll", c))
    for _ in range(extra):
        for c in reversed(range(sim.n)):
            sched.append(("poll", c))
            sim.step(("poll", c))


def shrink_sched(case, still_fails, limit=40):
    """greedy removal of schedule steps while the failure persists"""
    cur = dict(case)
    budget = limit
    changed = True
    while changed and budget > 0:
        changed = False
        for k in range(len(cur["sched"]) - 1, -1, -1):
            if budget <= 0:
                break
            cand = dict(cur)
            cand["sched"] = cur["sched"][:k] + cur["sched"][k + 1:]
            budget -= 1
            try:
                if still_fails(cand):
                    cur = cand
                    changed = True
            except Exception:
                pass
    return cur
