"""C02 — sequence patterns (no `all`) report exactly the earliest completion of every start event."""
from checks import sase_common as S

META = {
    "technique": "Coq proof (engine = per-start greedy fold; refinement to the earliest-continuation reference) + model/impl differential + reference implementation as oracle",
    "design_ref": "DESIGN.md §7 C02",
    "level_text": "Theorems C02_* in coq/theories/Sase/Props.v about the executable model of the SASE engine; tie by per-event comparison of every match and the run counters",
    "level_note": "Program class: no `all` steps, run limit never reached (default 10000). Predicate::Expr, .within, event time outside the class. Trusted: Coq kernel + vm_compute, model (differential tie), harness, Python reference",
}


def diffs(prog, events, ans):
    want = S.ref_matches_no_all(prog, events)
    got = S.parse_matches(ans)
    out = []
    for k, (w, g) in enumerate(zip(want, got)):
        ws = sorted(tuple(m["stack"]) for m in w)
        gs = sorted(tuple(m["stack"]) for m in g)
        if ws != gs:
            missing = [m for m in w if tuple(m["stack"]) not in gs]
            extra = [x for x in gs if x not in ws]
            out.append((k, gs, ws, missing, extra))
    return out


def judge(prog, events, ans):
    if "panic" in ans:
        return ["implementation panicked: " + ans["panic"]]
    return ["at event %d: engine reports %s, earliest-continuation semantics gives %s" % (k, gs, ws) for k, gs, ws, _, _ in diffs(prog, events, ans)]


def classify(prog, events, ans, fails):
    """Known finding `not-on-completing-event`: the only differences are matches the engine suppresses because the
    event that completes them also satisfies a .not clause (the engine checks .not clauses before advancing runs;
    the property only forbids .not events *before* the completion)."""
    if "panic" in ans:
        return []
    d = diffs(prog, events, ans)
    if d and all(not extra and missing and all(m["completer_is_not_event"] for m in missing) for _, _, _, missing, extra in d):
        return ["not-on-completing-event"]
    return []


def cases_for(run):
    rng = run.rng
    cases = []
    n = 260 if run.tier == "quick" else 8000
    for i in range(n):
        prog = S.gen_prog(rng, allow_all=False, allow_self=False)
        if i % 3 == 0 and prog["negs"]:
            # the corner DESIGN.md names: the .not type is also the last step's type
            prog["negs"][0]["ty"] = prog["steps"][-1]["ty"]
        keys = [("i", k) if i % 4 else ("s", k) for k in range(rng.range(1, 3))] if prog["partition"] else None
        cases.append((prog, S.gen_events(rng, rng.range(4, 14), keys=keys, prog=prog)))
    return cases


def check(run):
    run.rule = ("random 2-4 step sequence programs without all (constant and cross-alias filters, optional partition_by, optional .not, "
                "including .not on the last step's type) x random streams; judged against the earliest-continuation reference per start event; "
                "non-trivial = at least one match; distinct = distinct (program, stream)")
    run.trusted += ["Coq 8.16.1 kernel + vm_compute", "hand-written model coq/theories/Sase/Model.v (tied by differential run)",
                    "harness/crates/sase, checks/sase_common.py (generator, earliest-continuation reference)"]
    binpath = S.build(run, "C02.v")
    if binpath is None:
        return
    S.drive(run, binpath, cases_for(run), "C02", judge, classify, contradicts="C02_* in coq/theories/Sase/Props.v")


def replay(run, path):
    S.replay_case(run, path, judge)
