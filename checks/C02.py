"""C02 — sequence patterns (no `all`) report exactly the earliest completion of every start event."""
from checks import sase_common as S

META = {
    "technique": "Coq proof (engine = per-start greedy fold; refinement to the earliest-continuation reference) + model/impl differential + reference implementation as oracle",
    "design_ref": "DESIGN.md §7 C02",
    "level_text": "Theorems C02_* in coq/theories/Sase/Props.v about the executable model of the SASE engine; tie by per-event comparison of every match and the run counters",
    "level_note": "Program class: no `all` steps, run limit never reached (default 10000). Predicate::Expr, .within, event time outside the class. Trusted: Coq kernel + vm_compute, model (differential tie), harness, Python reference",
}


def diffs(prog, events, ans):
    want = S.ref_matches_no_all(prog, events)
    got = S.parse_matches(ans)
    out = []
    for k, (w, g) in enumerate(zip(want, got)):
        ws = sorted(tuple(m["stack"]) for m in w)
        gs = sorted(tuple(m["stack"]) for m in g)
        if ws != gs:
            missing = [m for m in w if tuple(m["stack"]) not in gs]
            extra = [x for x in gs if x not in ws]
            out.append((k, gs, ws, missing, extra))
    return out


def judge(prog, events, ans):
    if "panic" in ans:
        return ["implementation panicked: " + ans["panic"]]
    return ["at event %d: engine reports %s, earliest-continuation semantics gives %s" % (k, gs, ws) for k, gs, ws, _, _ in diffs(prog, events, ans)]


def coq_args(prog, events):
    steps = "; ".join("mkStep %d %s %s false" % (S.TYPES.index(s["ty"]), S.op_coq(s["pred"]), "None" if s["alias"] is None else "(Some %d)" % S.ALIASES.index(s["alias"])) for s in prog["steps"])
    negs = "; ".join("(%d, %s)" % (S.TYPES.index(n["ty"]), S.op_coq(n["pred"])) for n in prog["negs"])
    part = "None" if prog["partition"] is None else "(Some %d)" % S.FIELDS[prog["partition"]]
    return "[%s] [%s] %s [%s]" % (steps, negs, part, "; ".join(S.ev_coq(e) for e in events))


KNOWN_IMPORTS = S.IMPORTS.replace("Sase.Run.", "Sase.Run Sase.RunKnown.")


def classify(prog, events, ans, fails):
    """Known finding `not-on-completing-event`: the only differences are matches the engine suppresses because the
    event that completes them also satisfies a .not clause (the engine checks .not clauses before advancing runs;
    the property only forbids .not events *before* the completion).  The class id is granted only if, in addition,
    the formal class predicate [known_c02] of C02_exact_outside_known_class holds of the (shrunk) case: outside that
    class the theorem says engine = reference, so a failure there is never the known finding."""
    if "panic" in ans:
        return []
    d = diffs(prog, events, ans)
    if d and all(not extra and missing and all(m["completer_is_not_event"] for m in missing) for _, _, _, missing, extra in d):
        from vplib import coqtools
        try:
            k = coqtools.coq_eval("C02class", KNOWN_IMPORTS, ["known_case " + coq_args(prog, events)], timeout=1800)[0]
        except RuntimeError:
            return []
        return ["not-on-completing-event"] if k.startswith("K1") else []
    return []


KF_PROG = S.default_prog([{"ty": "B", "alias": "a", "all": False, "pred": None}, {"ty": "A", "alias": None, "all": False, "pred": None}],
                         negs=[{"ty": "A", "pred": ("cmp", "s", "ge", ("s", 2))}])
KF_EVENTS = [{"id": 0, "ty": "B", "f": {"s": ("s", 2)}}, {"id": 1, "ty": "A", "f": {"s": ("s", 2)}}]


def cases_for(run):
    rng = run.rng
    cases = [(KF_PROG, KF_EVENTS)]      # the known-finding witness of Sase/Ref.v is replayed on every run
    n = 260 if run.tier == "quick" else 3000
    for i in range(n):
        prog = S.gen_prog(rng, allow_all=False, allow_self=False)
        if i % 3 == 0 and prog["negs"]:
            # the corner DESIGN.md names: the .not type is also the last step's type
            prog["negs"][0]["ty"] = prog["steps"][-1]["ty"]
        keys = [("i", k) if i % 4 else ("s", k) for k in range(rng.range(1, 3))] if prog["partition"] else None
        cases.append((prog, S.gen_events(rng, rng.range(4, 14), keys=keys, prog=prog)))
    return cases


def check(run):
    run.rule = ("random 2-4 step sequence programs without all (constant and cross-alias filters, optional partition_by, optional .not, "
                "including .not on the last step's type) x random streams; judged against the earliest-continuation reference per start event; "
                "non-trivial = at least one match; distinct = distinct (program, stream)")
    run.trusted += ["Coq 8.16.1 kernel + vm_compute", "hand-written model coq/theories/Sase/Model.v (tied by differential run)",
                    "harness/crates/sase, checks/sase_common.py (generator, earliest-continuation reference)"]
    run.assumptions += ["hypotheses of C02_engine_is_per_start_greedy / C02_exact_outside_known_class: two or more steps, no `all` step, "
                        "stream no longer than the run limit (so no run is dropped or evicted); outside the class known_c02 for the text reference",
                        "processing-time semantics, no .within (cleanup_timeouts does not fire inside a case)"]
    binpath = S.build(run, "C02.v")
    if binpath is None:
        return
    from vplib import coqtools
    ok, lg = coqtools.make(["theories/Sase/RunKnown.vo"])      # needed by classify() during drive()
    run.oblige("coqc (full .vo) theories/Sase/RunKnown.vo", ok, lg[-2000:])
    cases = cases_for(run)
    answers = S.drive(run, binpath, cases, "C02", judge, classify, contradicts="C02_* in coq/theories/Sase/Props.v")
    # 1. the Python reference used as oracle is the Coq definition Sase.Ref.ref_matches: compare them on every case
    # 2. the right-hand side of C02_engine_is_per_start_greedy ([ref_e], evaluated in Coq) against the implementation
    #    itself, on every case whose stream is no longer than the run limit (the theorem's hypothesis)
    # 3. the formal class predicate [known_c02] against the Python classification (reported, not a verdict)
    exprs =["ref_case " + coq_args(p, e) for p, e in cases] + (["known_case " + coq_args(p, e) for p, e in cases] if ok else [])
    try:
        got = coqtools.coq_eval("C02ref", KNOWN_IMPORTS if ok else S.IMPORTS, exprs, shard=max(10, len(exprs) // 16 + 1), timeout=1800)
        bad = 0
        for (prog, events), g in zip(cases, got):
            mine = sorted(".".join(str(i) for i in m["stack"]) for ms in S.ref_matches_no_all(prog, events) for m in ms)
            if sorted(x for x in g.split(";") if x) != mine:
                bad += 1
                if bad <= 2:
                    run.tie_broken("Python reference vs Sase.Ref.ref_matches", "%s\n coq %s\n py %s" % (S.describe(prog, events), g, mine))
        run.extra["reference_cases_compared"] = len(cases)
        if ok:
            bad = 0
            n_cmp = 0
            n_known = 0
            n_class_differs = 0
            for (prog, events), ans, g in zip(cases, answers, got[len(cases):]):
                flag, _, stacks = g.partition("#")
                n_known += flag == "K1"
                py_known = any(m["completer_is_not_event"] for ms in S.ref_matches_no_all(prog, events) for m in ms)
                n_class_differs += py_known != (flag == "K1")
                if ans is None or "panic" in ans or len(events) > prog["max_runs"]:
                    continue
                n_cmp += 1
                impl = sorted(".".join(str(i) for i in m["stack"]) for ms in S.parse_matches(ans) for m in ms)
                if impl != sorted(x for x in stacks.split(";") if x):
                    bad += 1
                    if bad <= 2:
                        run.tie_broken("implementation vs ref_e (right-hand side of C02_engine_is_per_start_greedy)",
                                       "%s\n ref_e %s\n impl %s" % (S.describe(prog, events), stacks, impl))
            run.extra["ref_e_cases_compared_with_implementation"] = n_cmp
            run.extra["cases_in_known_class"] = n_known
            run.extra["class_predicate_vs_python_classification_differences"] = n_class_differs
    except RuntimeError as ex:
        run.tie_broken("reference evaluation (coqc)", str(ex))


def replay(run, path):
    S.replay_case(run, path, judge)
