"""C08 — numeric comparisons are mathematically correct for every int/float mix."""
import json
import os

from checks import cmp_common as C
from vplib import harness

META = {
    "technique": "Coq proof over arm tables regenerated from the Rust source (translator) with exact binary64 (Flocq) + "
                 "model/impl differential on operand pairs + exact rational oracle, also through real Engine programs",
    "level_text": "machine-checked proof (Coq 8.16.1 + Flocq) about an executable model tied to the source by a translator and a differential run",
    "level_note": "Proved, outside the recorded class C08-binop-mixed-le-ge (`<=`/`>=` on a mixed int/float pair through eval_binary_op, i.e. the "
                  "`.pattern` matcher path; pinned by two existing tests, refuted by a vm_compute witness replayed every run): every ordering operator has an "
                  "arm for every int/float operand pair in both evaluators (C08_total); for finite operands each of < <= > >= in "
                  "eval_expr_with_functions (.where/.emit/.having, never in the class), eval_binary_op and SASE compare_values returns exactly the "
                  "order of the real values (C08_order, C08_order_sase), and >= is > or numerically-equal (C08_ge_iff); NaN/infinite operands are "
                  "covered by the differential run only. The (operator,type,type) dispatch is regenerated from evaluator.rs/sase.rs on every run and the "
                  "theorems are re-checked over it; the helper cmp_int_float, f64 rounding of `as f64`, trunc and partial_cmp are hand-modelled "
                  "(Flocq binary64) and tied by the differential run. .where/.emit/.having/.pattern/sequence-step programs are tested, not proved.",
    "design_ref": "DESIGN.md §7 C08",
}

CLASS_BINOP = "C08-binop-mixed-le-ge"


def mixed(l, r):
    return {C.tag(l), C.tag(r)} == {"i", "f"}


def in_class(where, op, l, r):
    """known finding: `<=` / `>=` between an Int and a Float through eval_binary_op (eval_pattern_expr / .pattern)"""
    return where in ("binop", "pattern") and op in ("Le", "Ge") and mixed(l, r)


KIND_TXT = {"where_lit": ".where(x OP literal)", "where_fields": ".where(x OP y)", "emit": ".emit(r: x OP y)", "having": ".having(v OP w)",
            "pattern": ".pattern(events => first(events).x OP first(events).y)", "step": "sequence step `-> B where x OP literal`"}


# ------------------------------------------------------------ engine programs
def program(kind, op, lit=None):
    o = C.OP_TXT[op]
    if kind == "where_lit":
        return "stream S = A\n    .where(x %s %s)\n    .emit(k: k)\n" % (o, lit)
    if kind == "where_fields":
        return "stream S = A\n    .where(x %s y)\n    .emit(k: k)\n" % o
    if kind == "emit":
        return "stream S = A\n    .emit(k: k, r: x %s y)\n" % o
    if kind == "having":
        return "stream S = A\n    .window(1)\n    .aggregate(k: last(k), v: last(x), w: last(y))\n    .having(v %s w)\n    .emit(k: k)\n" % o
    if kind == "pattern":
        return "stream S = A\n    .window(1)\n    .pattern(p: events => first(events).x %s first(events).y)\n    .emit(k: k)\n" % o
    if kind == "step":
        return "stream S = Z as z -> A where x %s %s as a\n    .emit(k: a.k)\n" % (o, lit)
    raise ValueError(kind)


def lit_text(v):
    return v["i"] if C.tag(v) == "i" else C.float_txt(C.fval(v))


def engine_case(kind, op, pairs):
    """pairs: list of (l, r); for *_lit / step kinds all r are the same literal"""
    lit = lit_text(pairs[0][1]) if kind in ("where_lit", "step") else None
    evs = []
    for k, (l, r) in enumerate(pairs):
        fields = [["x", l], ["k", C.I(k)]] if lit is not None else [["x", l], ["y", r], ["k", C.I(k)]]
        if kind == "step":
            evs.append({"type": "Z", "fields": []})
        evs.append({"type": "A", "fields": fields})
    return {"op": "engine", "vpl": program(kind, op, lit), "events": evs}


def judge_engine(kind, op, pairs, ans):
    """returns list of failure strings (oracle: exact order of the operand values)"""
    if "panic" in ans or "error" in ans:
        return [(-1, "engine run failed: %s" % (ans.get("panic") or ans.get("error")))]
    want = [C.expected(op, l, r) for l, r in pairs]
    out = ans["out"]
    fails = []
    if kind == "emit":
        got = {}
        for o in out:
            d = dict((k, v) for k, v in o["fields"])
            got[int(d["k"]["i"])] = d.get("r")
        for k, w in enumerate(want):
            g = got.get(k)
            if g != {"b": w}:
                fails.append((k, "event %d: x=%s y=%s: emitted r=%s, mathematically %s" % (k, C.show(pairs[k][0]), C.show(pairs[k][1]),
                                                                                         "absent" if g is None else json.dumps(g), str(w).lower())))
    else:
        ks = set()
        for o in out:
            d = dict((k, v) for k, v in o["fields"])
            ks.add(int(d["k"]["i"]))
        for k, w in enumerate(want):
            if (k in ks) != w:
                fails.append((k, "event %d: x=%s vs %s: %s, mathematically `x %s ..` is %s" % (
                    k, C.show(pairs[k][0]), C.show(pairs[k][1]), "selected" if k in ks else "dropped", C.OP_TXT[op], str(w).lower())))
    return fails


def finite_pairs(rng, n, same_right=None):
    res = []
    while len(res) < n:
        l, r = C.gen_num_pair(rng)
        if same_right is not None:
            r = same_right
        if C.is_finite_num(l) and C.is_finite_num(r):
            res.append((l, r))
    return res


def gen_literal(rng):
    """a literal expressible in VPL text (non-negative int, positive finite float)"""
    while True:
        v = C.I(abs(C.gen_int(rng))) if rng.chance(1, 2) else C.F(abs(C.gen_float(rng, special=False)))
        if C.tag(v) == "i" and int(v["i"]) >= C.P63:
            continue
        if C.vpl_ok_lit(v):
            return v


def near_operand(rng, lit):
    """an event value close to the literal, of either type"""
    if C.tag(lit) == "i":
        i = int(lit["i"])
        f = float(i)
        return rng.choice([C.I(C.clamp_i64(i + rng.choice([0, 1, -1]))), C.F(f), C.F(C.nextafter(f, True)), C.F(C.nextafter(f, False)), C.F(f + 0.5)])
    f = C.fval(lit)
    if abs(f) < 2.0 ** 63:
        return rng.choice([C.I(C.clamp_i64(int(f) + rng.choice([0, 1, -1]))), C.F(f), C.F(C.nextafter(f, True)), C.F(C.nextafter(f, False))])
    return rng.choice([C.I(C.P63 - 1), C.F(f)])


# ------------------------------------------------------------------- check
def fixed_pairs():
    """the shapes the property text and DESIGN §10 name, plus earlier minimised failures (corpus)"""
    ps = [(C.I(5), C.F(4.0)), (C.I(3), C.F(4.0)), (C.F(31.5), C.I(30)), (C.I(31), C.I(30)), (C.I(C.P53 + 1), C.F(float(C.P53))), (C.F(float(C.P53)), C.I(C.P53 + 1)),
          (C.I(3), C.F(3.0)), (C.F(3.0), C.I(3)), (C.F(-0.0), C.I(0)), (C.I(0), C.F(-0.0)), (C.F(0.0), C.F(-0.0)),
          (C.I(C.P63 - 1), C.F(float(C.P63))), (C.F(float(C.P63)), C.I(C.P63 - 1)), (C.I(-C.P63), C.F(-float(C.P63))), (C.F(-float(C.P63)), C.I(-C.P63)),
          (C.I(C.P63 - 1), C.F(9223372036854774784.0)), (C.F(0.5), C.I(0)), (C.F(-0.5), C.I(0)), (C.I(1), C.F(0.5)), (C.I(-1), C.F(-0.5)),
          (C.F(5e-324), C.I(0)), (C.I(0), C.F(-5e-324)), (C.F(1e300), C.I(C.P63 - 1)), (C.I(-C.P63), C.F(-1e300)),
          (C.F(float("nan")), C.I(1)), (C.I(1), C.F(float("nan"))), (C.F(float("inf")), C.I(C.P63 - 1)), (C.I(-C.P63), C.F(float("-inf"))),
          (C.F(float("nan")), C.F(float("nan"))), (C.S("a"), C.S("b")), (C.S("a"), C.I(1)), (C.B(True), C.B(False)), (C.NULL, C.I(1))]
    p = os.path.join(C.VERIF, "corpus", "C08", "pairs.json")
    if os.path.exists(p):
        ps += [tuple(x) for x in json.load(open(p))]
    return ps


def check(run):
    run.rule = ("operand pairs (int/int, float/float, int/float, float/int; boundary values around 2^53 and 2^63, fractional, +-0, subnormal, "
                "near-equal int/float pairs; NaN/inf/non-numeric as negative tests) x {<,<=,>,>=,==,!=} x {eval_expr_with_functions, eval_binary_op, "
                "eval_pattern_expr, SASE compare_values}, plus real Engine programs (.where literal/fields, .emit, .having, .pattern, sequence step); "
                "non-trivial = finite numeric pair with at least one float or one |int| > 2^53; distinct = distinct (left, right) values / (program, events)")
    run.trusted += ["Coq 8.16.1 kernel + vm_compute", "Flocq 4 binary64 (BinarySingleNaN) as the meaning of Rust f64 compare / `as f64` / trunc",
                    "translator translate/eval_arms.py (arm tables of evaluator.rs Expr::Binary, eval_binary_op, sase.rs values_compare/compare_values/values_equal)",
                    "hand-written model coq/theories/Cmp/Model.v (cmp_int_float, table interpretation) tied by differential run on every operator x evaluator",
                    "Rust harness harness/crates/cmp, Python driver checks/cmp_common.py (generators, exact rational oracle)",
                    "standard-library axioms under Flocq's real-number theorems: " + ", ".join(C.FLOCQ_AXIOMS)]
    run.assumptions += ["Rust f64 comparison, `i64 as f64`, f64::trunc and `f64 as i64` behave as IEEE-754 binary64 round-to-nearest-even / truncation (modelled with Flocq)",
                        "NaN and infinite operands: no mathematical order is claimed; only model/implementation agreement is checked"]
    import time
    t0 = time.time()
    binpath = C.build_all(run, "theories/Cmp/Props_C08.vo", "C08.v")
    t0 = C.phase(run, "translate+coq+audit+cargo", t0)
    if binpath is None:
        return
    rng = run.rng
    quick = run.tier == "quick"

    # ---- 1. operand pairs through the evaluator APIs
    pairs = fixed_pairs()
    n = 1000 if quick else 30000
    for _ in range(n):
        if rng.chance(1, 25):
            pool = [C.S("a"), C.S("b"), C.B(True), C.NULL, C.I(C.gen_int(rng)), C.F(C.gen_float(rng))]
            pairs.append((rng.choice(pool), rng.choice(pool)))
        else:
            pairs.append(C.gen_num_pair(rng))
    # small-scope exhaustive part: every boundary int against every boundary float, both operand orders
    # (quick: a seeded sixth of it; thorough: all of it plus float/float and int/int edge pairs)
    edge = []
    for i in C.INT_EDGES:
        for f in C.FLOAT_EDGES + C.FLOAT_SPECIAL:
            edge += [(C.I(i), C.F(f)), (C.F(f), C.I(i))]
    if quick:
        edge = [p for p in edge if rng.chance(1, 6)]
    else:
        edge += [(C.F(a), C.F(b)) for a in C.FLOAT_EDGES for b in C.FLOAT_EDGES]
        edge += [(C.I(a), C.I(b)) for a in C.INT_EDGES for b in C.INT_EDGES]
    pairs += edge
    run.extra["edge_pairs"] = len(edge)
    answers = harness.run_jsonl(binpath, [{"op": "binall", "l": l, "r": r} for l, r in pairs])
    t0 = C.phase(run, "impl pairs", t0)
    model = C.model_eval(run, "C08", ["cmp_case %s %s" % (C.g_value(l), C.g_value(r)) for l, r in pairs])
    t0 = C.phase(run, "model pairs", t0)
    n_or = n_corr = n_known = 0
    for k, ((l, r), ans, sm) in enumerate(zip(pairs, answers, model)):
        nontrivial = None
        if C.is_finite_num(l) and C.is_finite_num(r) and ("f" in (C.tag(l), C.tag(r)) or abs(int(l["i"])) > C.P53 or abs(int(r["i"])) > C.P53):
            nontrivial = ("pair", json.dumps([l, r]))
        si = C.impl_cmp_str(ans)
        run.case(nontrivial, sample={"l": C.show(l), "r": C.show(r), "impl": si} if k in (0, 2) else None)
        run.count("pair:" + C.pair_bucket(l, r))
        bad_all = C.judge_pair(l, r, ans)
        known_bad = [b for b in bad_all if in_class(b[0], b[1], l, r)]
        bad = [b for b in bad_all if not in_class(b[0], b[1], l, r)]
        if known_bad:
            n_known += 1
            run.count("known:" + CLASS_BINOP)
            where, op, got, want = known_bad[0]
            run.violation("%s: `%s %s %s` gives %s" % (C.EVALUATOR_NAME[where], C.show(l), C.OP_TXT[op], C.show(r), got), {}, classes=[CLASS_BINOP])
        if bad:
            n_or += 1
            run.count("oracle_fail")
            if n_or <= 6:
                where, op, got, want = bad[0]
                run.violation("%s: `%s %s %s` gives %s, mathematically %s (%d operator/evaluator combinations wrong on this pair)" % (
                    C.EVALUATOR_NAME[where], C.show(l), C.OP_TXT.get(op, op), C.show(r), got, want, len(bad)),
                    {"kind": "pair", "l": l, "r": r, "implementation": ans, "wrong": bad[:12],
                     "contradicts": "C08_order / C08_total (coq/theories/Cmp/Props_C08.v)"})
        if "panic" not in ans and "".join(C.ch(ans["pattern"][o]) for o in C.OPS) != "".join(C.ch(ans["binop"][o]) for o in C.OPS):
            n_corr += 1
            if n_corr <= 3:
                run.tie_broken("eval_pattern_expr Binary does not go through eval_binary_op on %s , %s" % (C.show(l), C.show(r)), json.dumps(ans)[:600])
        if sm is not None and sm != si:
            n_corr += 1
            if n_corr <= 3:
                run.tie_broken("correspondence Cmp/Model.v vs evaluator.rs/sase.rs on operands %s , %s" % (C.show(l), C.show(r)),
                               "impl  %s\nmodel %s" % (si, sm))
    run.extra["pair_oracle_failures"] = n_or
    run.extra["pairs_in_known_class"] = n_known
    run.extra["disagreements"] = n_corr

    # ---- 2. real Engine programs
    ecases = []
    for kind in ("where_lit", "step"):
        for op in C.ORD_OPS:
            lits = [C.I(30), C.F(float(C.P53))] + [gen_literal(rng) for _ in range(3 if quick else 25)]
            for lit in lits:
                ps = [(C.F(31.5), lit), (C.I(31), lit), (C.I(C.P53 + 1), lit)] + [(near_operand(rng, lit), lit) for _ in range(5)] + finite_pairs(rng, 3, same_right=lit)
                ecases.append((kind, op, ps))
    for kind in ("where_fields", "emit", "having", "pattern"):
        for op in C.ORD_OPS:
            for _ in range(2 if quick else 20):
                ps = [(C.F(31.5), C.I(30)), (C.I(C.P53 + 1), C.F(float(C.P53)))] + finite_pairs(rng, 10)
                ecases.append((kind, op, ps))
    eans = harness.run_jsonl(binpath, [engine_case(*c) for c in ecases])
    t0 = C.phase(run, "engine programs", t0)
    n_eng = n_eng_known = 0
    for (kind, op, ps), ans in zip(ecases, eans):
        run.case(("engine", kind, op, json.dumps(ps)))
        run.count("engine:" + kind)
        run.count("engine-op:" + op)
        fails_all = judge_engine(kind, op, ps, ans)
        kn = [(k_, m) for k_, m in fails_all if k_ >= 0 and in_class("pattern" if kind == "pattern" else "-", op, ps[k_][0], ps[k_][1])]
        fails = [(k_, m) for k_, m in fails_all if (k_, m) not in kn]
        if kn:
            n_eng_known += 1
            run.count("known_engine:" + CLASS_BINOP)
            run.violation("%s, operator %s: %s" % (KIND_TXT[kind], C.OP_TXT[op], kn[0][1]), {}, classes=[CLASS_BINOP])
        if fails:
            n_eng += 1
            run.count("oracle_fail_engine")
            if n_eng <= 4:
                # shrink to the first failing event alone
                small = None
                for k_, _ in fails:
                    if k_ < 0:
                        continue
                    p = ps[k_]
                    a1 = harness.run_jsonl(binpath, [engine_case(kind, op, [p])])[0]
                    f1 = [x for x in judge_engine(kind, op, [p], a1) if not in_class("pattern" if kind == "pattern" else "-", op, p[0], p[1])]
                    if f1:
                        small = (p, a1, f1)
                        break
                if small:
                    p, a1, f1 = small
                    run.violation("%s, operator %s: %s" % (KIND_TXT[kind], C.OP_TXT[op], f1[0][1]),
                                  {"kind": "engine", "program_kind": kind, "op": op, "pairs": [list(p)], "vpl": engine_case(kind, op, [p])["vpl"],
                                   "implementation": a1, "contradicts": "C08_order (coq/theories/Cmp/Props_C08.v) through the Engine"})
                else:
                    run.violation("%s, operator %s: %s" % (KIND_TXT[kind], C.OP_TXT[op], fails[0][1]),
                                  {"kind": "engine", "program_kind": kind, "op": op, "pairs": [list(p) for p in ps], "implementation": ans})
    run.extra["engine_oracle_failures"] = n_eng
    run.extra["engine_cases_in_known_class"] = n_eng_known


def replay(run, path):
    r = json.load(open(path))["replay"]
    ok, bindir, lg = harness.build("vp-cmp")
    binpath = os.path.join(bindir, "vp-cmp")
    if r["kind"] == "pair":
        ans = harness.run_jsonl(binpath, [{"op": "binall", "l": r["l"], "r": r["r"]}])[0]
        bad = [b for b in C.judge_pair(r["l"], r["r"], ans) if not in_class(b[0], b[1], r["l"], r["r"])]
        run.case(("replay", json.dumps([r["l"], r["r"]])), {"l": r["l"], "r": r["r"], "impl": C.impl_cmp_str(ans)})
        if bad:
            where, op, got, want = bad[0]
            run.violation("%s: `%s %s %s` gives %s, mathematically %s" % (C.EVALUATOR_NAME[where], C.show(r["l"]), C.OP_TXT.get(op, op), C.show(r["r"]), got, want),
                          {"kind": "pair", "l": r["l"], "r": r["r"], "implementation": ans, "wrong": bad[:12]})
    else:
        ps = [tuple(p) for p in r["pairs"]]
        ans = harness.run_jsonl(binpath, [engine_case(r["program_kind"], r["op"], ps)])[0]
        fails = [m for k_, m in judge_engine(r["program_kind"], r["op"], ps, ans)
                 if k_ < 0 or not in_class("pattern" if r["program_kind"] == "pattern" else "-", r["op"], ps[k_][0], ps[k_][1])]
        run.case(("replay", json.dumps(r["pairs"])), {"vpl": r.get("vpl"), "out": ans})
        if fails:
            run.violation("%s, operator %s: %s" % (KIND_TXT[r["program_kind"]], C.OP_TXT[r["op"]], fails[0]),
                          {"kind": "engine", "program_kind": r["program_kind"], "op": r["op"], "pairs": r["pairs"], "implementation": ans})
