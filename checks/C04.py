"""C04 — partitioned patterns, windows and aggregates act as independent per-key runs."""
import json

from checks import sase_common as S
from vplib import harness

META = {
    "technique": "Coq proof for the pattern part (engine soundness + per-partition run sets of the SASE model) and for windows (partitioned-window decomposition lemmas of the Window area) + metamorphic oracle: outputs = union of per-key replays, on the real engine",
    "design_ref": "DESIGN.md §7 C04",
    "level_text": "Pattern part: the SASE model (tied per event to sase.rs) keeps one run set per key and only advances the event's own partition; C01's theorem gives that matches consist of events consumed by one run. Window part: C12_partition_partitioned / C13_*_partitioned (Window area). The property's own oracle (per-key replay) is run on the real SaseEngine and on real Engine programs with windows/aggregates.",
    "level_note": "Proved for patterns (C04_matches_single_key / C04_runs_single_key, all patterns, streams, configurations): events with different partition values never appear in the same match or stored run. Also proved: C04_sequence_patterns_decompose (no `all`, no .not, stream within the run limit): output = union of the per-key runs, up to order. The decomposition theorem 'output = union of per-key runs' is NOT proved for patterns (only tied by the metamorphic oracle and the model correspondence). .not clauses are excluded from C04's program class (the engine applies them across partitions, which is what C01/C02 pin). Backpressure limits never bind in the generated cases (default 10000). Trusted: Coq kernel, models (differential tie), harness, Python driver",
}


def sub_stream(prog, events, key):
    return [e for e in events if S.key_of(prog, e) == key]


def judge_with(binpath):
    def judge(prog, events, ans):
        if "panic" in ans:
            return ["implementation panicked: " + ans["panic"]]
        out = []
        whole = sorted(tuple(m["stack"]) for ms in S.parse_matches(ans) for m in ms)
        for st in whole:
            ks = {json.dumps(S.key_of(prog, events[i])) for i in st}
            if len(ks) > 1:
                out.append("match %s mixes partition values %s" % (list(st), sorted(ks)))
        keys = []
        for e in events:
            k = S.key_of(prog, e)
            if k not in keys:
                keys.append(k)
        reqs = []
        for k in keys:
            sub = sub_stream(prog, events, k)
            reqs.append(S.prog_request(prog, sub))
        answers = harness.run_jsonl(binpath, reqs)
        union = []
        for a in answers:
            if "panic" in a:
                return ["implementation panicked on a per-key replay: " + a["panic"]]
            # ids are the original arrival indices (the id field travels with the event)
            union += [tuple(m["stack"]) for ms in S.parse_matches(a) for m in ms]
        if sorted(union) != whole:
            out.append("whole stream gives %s, union of per-key replays gives %s" % (whole, sorted(union)))
        return out
    return judge


def cases_for(run):
    rng = run.rng
    cases = []
    n = 160 if run.tier == "quick" else 1500
    for i in range(n):
        prog = S.gen_prog(rng, allow_all=(i % 3 == 0), allow_self=False)
        prog["negs"] = []
        prog["partition"] = "k"
        nk = rng.range(1, 6)
        keys = [("i", k) if i % 2 else ("s", k % 4) for k in range(nk)]
        evs = S.gen_events(rng, rng.range(6, 20), keys=keys, prog=prog)
        cases.append((prog, evs))
    return cases


WINDOW_PROGRAMS = [
    ("tumbling", "stream S = A\n    .partition_by(k)\n    .window(4s)\n    .aggregate(n: count(), s: sum(x))\n    .emit(n: n, s: s)\n"),
    ("count", "stream S = A\n    .partition_by(k)\n    .window(3)\n    .aggregate(n: count(), s: sum(x))\n    .emit(n: n, s: s)\n"),
    ("sliding_count", "stream S = A\n    .partition_by(k)\n    .window(3, sliding: 1)\n    .aggregate(n: count(), s: sum(x))\n    .emit(n: n, s: s)\n"),
    ("sliding", "stream S = A\n    .partition_by(k)\n    .window(4s, sliding: 2s)\n    .aggregate(n: count(), s: sum(x))\n    .emit(n: n, s: s)\n"),
    # hopping form (slide longer than the window): a key that goes quiet for longer than the window and returns before its slide
    # boundary must not be affected by the other keys' events in between (seed C04-partitioned-sliding-expires-other-partitions)
    ("sliding_hop", "stream S = A\n    .partition_by(k)\n    .window(2s, sliding: 5s)\n    .aggregate(n: count(), s: sum(x))\n    .emit(n: n, s: s)\n"),
    ("session", "stream S = A\n    .partition_by(k)\n    .window(session: 3s)\n    .aggregate(n: count(), s: sum(x))\n    .emit(n: n, s: s)\n"),
    ("aggregate", "stream S = A\n    .partition_by(k)\n    .aggregate(n: count(), s: sum(x))\n    .emit(n: n, s: s)\n"),
]


def window_cases(run, binpath):
    """Engine programs with partitioned windows/aggregates: outputs of the whole stream vs union of per-key replays.
    x = 2^id so that sums identify exactly which events an output aggregates."""
    rng = run.rng
    n = 10 if run.tier == "quick" else 40
    fails = 0
    for name, src in WINDOW_PROGRAMS:
        for _ in range(n):
            nk = rng.range(1, 5)
            keys = [{"i": str(k)} for k in range(nk)]
            evs = []
            t = 0
            for i in range(rng.range(4, 16)):
                t += rng.range(0, 3) * 1000000000
                fs = [["id", {"i": str(i)}], ["x", {"i": str(2 ** i)}]]
                if rng.chance(9, 10):
                    fs.append(["k", rng.choice(keys)])
                evs.append({"type": "A", "ts_ns": t, "fields": fs})

            def key_of(e):
                for k, v in e["fields"]:
                    if k == "k":
                        return v["i"]
                return None
            reqs = [{"mode": "vpl", "vpl": src, "events": evs}]
            ks = []
            for e in evs:
                if key_of(e) not in ks:
                    ks.append(key_of(e))
            for k in ks:
                reqs.append({"mode": "vpl", "vpl": src, "events": [e for e in evs if key_of(e) == k]})
            answers = harness.run_jsonl(binpath, reqs)
            if any("events" not in a for a in answers):
                run.count("window_program_rejected:" + name)
                continue

            def outs(a):
                return sorted(json.dumps(sorted((k, json.dumps(v)) for k, v in o["fields"])) for per in a["events"] for o in per)
            whole = outs(answers[0])
            union = sorted(x for a in answers[1:] for x in outs(a))
            run.case(("win", name, json.dumps(evs)) if whole else None, sample={"program": src, "events": evs[:3]} if fails == 0 and name == "count" else None)
            run.count("window:" + name)
            run.count("window_outputs=%s" % ("0" if not whole else "1+"))
            if whole != union:
                fails += 1
                if fails <= 3:
                    run.violation("partitioned %s: whole stream outputs %s, union of per-key replays %s" % (name, whole[:6], union[:6]),
                                  {"program": src, "events": evs, "whole": whole, "union_of_per_key": union,
                                   "contradicts": "C12_partition_partitioned / C13_*_partitioned (coq/theories/Window/Props.v)"})
    run.extra["window_failures"] = fails


def check(run):
    run.rule = ("(a) random partitioned sequence programs (no .not) x streams with 1-6 key values of one type incl. events missing the key: matches of the "
                "whole stream vs union of per-key replays on the real SaseEngine, and vs the Coq model; (b) Engine programs with partition_by + "
                "tumbling/count/sliding/session windows and bare aggregates, x = 2^id: outputs vs union of per-key replays; non-trivial = at least one output")
    run.trusted += ["Coq 8.16.1 kernel + vm_compute", "models coq/theories/Sase/Model.v and coq/theories/Window (differential ties)",
                    "harness/crates/sase (modes sase and vpl), checks/C04.py"]
    binpath = S.build(run, "C04.v")
    if binpath is None:
        return
    S.drive(run, binpath, cases_for(run), "C04", judge_with(binpath), contradicts="C04 (per-key decomposition)")
    window_cases(run, binpath)


def replay(run, path):
    import os
    okb, bindir, blog = harness.build("vp-sase")
    S.replay_case(run, path, judge_with(os.path.join(bindir, "vp-sase")))
