"""C05 — pattern state stays within its documented bounds and never panics."""
import json

from checks import sase_common as S

META = {
    "technique": "Coq proof (bounds as invariants of the engine step over all streams and strategies; no-panic from NFA well-formedness + the Zdd theorems) + model/impl differential on adversarial streams (plus an oracle-only probe of SEQ patterns with a NOT step, outside the model)",
    "design_ref": "DESIGN.md §7 C05",
    "level_text": "Theorems C05_* in coq/theories/Sase/Props.v about the executable model of the SASE engine; tie by per-event comparison of matches and run counters (active, created, dropped, evicted, completed)",
    "level_note": "Pattern-level NOT steps (SasePattern::Not), AND/OR and .within are outside the model: SEQ patterns with a NOT step are only probed on the implementation (run bound, no panic; search support, no theorem). Proved: run bound (max_runs >= 1), enumeration cap, never-panics (C05_never_panics: every pattern, stream, configuration). Kleene event bound proved for patterns with at most one `all` step (C05_kleene_events_bound); for two or more `all` steps it rests on the oracle. Per-partition run counts are not exposed by the engine: the oracle bounds the total by max_runs x partitions seen (exact for single-key streams) and the per-partition bound rests on the model tie. Trusted: Coq kernel + vm_compute, model (differential tie), harness",
}


def judge(prog, events, ans):
    if "panic" in ans:
        return ["implementation panicked: " + ans["panic"]]
    out = []
    keys = set()
    nall = sum(1 for s in prog["steps"] if s["all"])
    for k, (ev, e) in enumerate(zip(events, ans["events"])):
        keys.add(repr(S.key_of(prog, ev)))
        bound = prog["max_runs"] * (len(keys) if prog["partition"] else 1)
        if e["active"] > bound:
            out.append("after event %d: %d partial matches, limit %d per partition x %d partitions" % (k, e["active"], prog["max_runs"], len(keys) if prog["partition"] else 1))
        groups = {}
        for m in e["matches"]:
            groups.setdefault(tuple(m["stack"]), []).append(m)
            if nall == 1:
                nb = len(m["stack"]) - (len(prog["steps"]) - 1)
                if nb > prog["max_kleene"]:
                    out.append("event %d: match keeps %d Kleene events, cap %d" % (k, nb, prog["max_kleene"]))
        for st, ms in groups.items():
            if any(m["combo"] is not None for m in ms) and len(ms) > max(1, prog["max_results"]):
                out.append("event %d: %d matches for one completion, cap %d" % (k, len(ms), prog["max_results"]))
    return out


def cases_for(run):
    rng = run.rng
    cases = []
    n = 220 if run.tier == "quick" else 2500
    strategies = ["drop", "error", "oldest", "least", ("sample", 1, 2), ("sample", 1, 4), ("sample", 1, 1), ("sample", 0, 1)]
    for i in range(n):
        prog = S.gen_prog(rng, allow_all=(i % 3 == 0), allow_self=(i % 6 == 0))
        prog["max_runs"] = rng.range(1, 8) if i % 5 else rng.range(1, 2)
        prog["strategy"] = strategies[i % len(strategies)]
        prog["max_kleene"] = rng.choice([1, 2, 3, 20])
        prog["max_results"] = rng.choice([1, 2, 5, 10000])
        if i % 2 == 0:
            # adversarial: first step unfiltered so that almost every matching event starts a run, completers rare
            prog["steps"][0]["pred"] = None
        keys = [("i", k) for k in range(rng.range(1, 3))] if prog["partition"] else None
        evs = S.gen_events(rng, rng.range(8, 24), keys=keys, prog=prog if i % 4 else None)
        if i % 2 == 0:
            t0 = prog["steps"][0]["ty"]
            for e in evs:
                if rng.chance(1, 2):
                    e["ty"] = t0
        cases.append((prog, evs))
    return cases


def check(run):
    run.rule = ("random sequence programs with max_runs 1-8, every backpressure strategy (drop, error, evict-oldest, evict-least-progress, sample with "
                "rates 0, 1/4, 1/2, 1), Kleene caps 1-3/20, enumeration caps 1/2/5/10000, adversarial streams of 8-24 events in which half of the events start a run; "
                "non-trivial = at least one match; distinct = distinct (program, stream)")
    run.trusted += ["Coq 8.16.1 kernel + vm_compute", "hand-written model coq/theories/Sase/Model.v (tied by differential run incl. run counters)",
                    "harness/crates/sase (catch_unwind), checks/sase_common.py"]
    binpath = S.build(run, "C05.v")
    if binpath is None:
        return
    S.drive(run, binpath, cases_for(run), "C05", judge, contradicts="C05_* in coq/theories/Sase/Props.v")
    not_step_probe(run, binpath)


def judge_bounds_only(prog, events, ans):
    """run bound and no panic (patterns with a negation step: outside Sase/Model.v, so no match-level judgement)"""
    if "panic" in ans:
        return ["implementation panicked: " + ans["panic"]]
    out = []
    keys = set()
    for k, (ev, e) in enumerate(zip(events, ans["events"])):
        keys.add(repr(S.key_of(prog, ev)))
        bound = prog["max_runs"] * (len(keys) if prog["partition"] else 1)
        if e["active"] > bound:
            out.append("after event %d: %d partial matches, limit %d per partition x %d partitions (pattern with a NOT step)" % (
                k, e["active"], prog["max_runs"], len(keys) if prog["partition"] else 1))
    return out


def not_step_probe(run, binpath):
    """Search support only, no theorem: SEQ patterns with a pattern-level NOT step (SasePattern::Not, pending_negations) are
    outside the modelled class.  Run bound and no-panic are judged on the implementation alone, every strategy, adversarial
    streams in which most events start a run and the live runs sit in their negation step."""
    from vplib import harness
    rng = run.rng
    strategies = ["drop", "error", "oldest", "least", ("sample", 1, 2), ("sample", 1, 1), ("sample", 0, 1)]
    cases = []
    for i in range(42 if run.tier == "quick" else 700):
        n = rng.range(2, 3)
        steps = [{"ty": S.TYPES[rng.below(3)], "alias": S.ALIASES[j], "all": False, "pred": None} for j in range(n)]
        steps.insert(rng.range(1, n - 1), {"ty": S.TYPES[3], "alias": None, "all": False, "pred": None, "not": True})
        prog = S.default_prog(steps, [], "k" if i % 3 == 0 else None)
        prog["max_runs"] = rng.range(1, 8)
        prog["strategy"] = strategies[i % len(strategies)]
        keys = [("i", k) for k in range(rng.range(1, 3))] if prog["partition"] else None
        evs = S.gen_events(rng, rng.range(8, 24), keys=keys, prog=None)
        t0 = steps[0]["ty"]
        for e in evs:
            if rng.chance(2, 3):
                e["ty"] = t0
        cases.append((prog, evs))
    answers = harness.run_jsonl(binpath, [S.prog_request(p, e) for p, e in cases], timeout=1200)
    nf = 0
    for (prog, evs), ans in zip(cases, answers):
        run.count("not-step probe (oracle only)")
        run.count("not-step probe strategy=%s" % (prog["strategy"] if not isinstance(prog["strategy"], tuple) else "sample"))
        peak = max([e["active"] for e in ans.get("events", [])] or [0])
        run.case(json.dumps(S.describe(prog, evs), sort_keys=True) if peak >= prog["max_runs"] else None)
        fails = judge_bounds_only(prog, evs, ans)
        if fails:
            nf += 1
            if nf <= 2:
                run.violation("; ".join(fails)[:700], dict(S.describe(prog, evs), implementation=ans, failures=fails, not_step_probe=True,
                                                            contradicts="property C05 (run bound) on a pattern class outside Sase/Model.v: no theorem covers it"))
    run.extra["not_step_probe_failures"] = nf


def replay(run, path):
    r = json.load(open(path))["replay"]
    S.replay_case(run, path, judge_bounds_only if r.get("not_step_probe") else judge)
