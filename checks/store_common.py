"""Shared machinery for C21 (checkpoint file store under crashes) and C22 (tenant metadata store).

C21 pipeline: Coq build + audit -> harness vp-store (real FileStore / CheckpointManager on a temp
directory, crash points injected through the cfg(varpulis_verif) hook) -> generated histories ->
implementation run, model run (vm_compute over Store/Run.v), independent oracle in Python.
"""
import json
import os

from vplib import coqtools, harness

IMPORTS21 = ("From Coq Require Import String List NArith.\nImport ListNotations.\n"
             "From VP Require Import Base.Render Store.Model Store.Run.\nOpen Scope N_scope.\n")

CORRUPT_KINDS = ["trunc", "empty", "garbage", "flip", "schema", "tail"]


# ---------------------------------------------------------------- C21: rendering
def g_ev(e):
    k = e[0]
    if k == "new":
        return "ENew"
    if k == "save":
        return "ESave %d" % e[1]
    if k == "savecrash":
        torn = "None" if e[3] is None else "(Some %d%%nat)" % e[3]
        return "ECrash %d %d%%nat %s" % (e[1], e[2], torn)
    if k == "corrupt":
        # the model only needs *unreadable* bytes; every corruption kind is rendered as bytes that do not decode
        return "ECorrupt [9]"
    raise ValueError(k)


def g_case21(case):
    return "c21_case %d%%nat [%s]" % (case["max"], "; ".join(g_ev(e) for e in case["events"]))


def impl_str21(ans):
    if "panic" in ans:
        return "PANIC " + ans["panic"]
    out = []
    for s in ans["steps"]:
        rec = s["recover"]
        if rec.startswith("err") or rec.startswith("newerr") or rec.startswith("openerr"):
            rec = "err"
        res = s["res"]
        out.append("%s|%s|%s" % (res, ";".join(s["files"]), rec))
    return "#".join(out)


# ---------------------------------------------------------------- C21: oracle
def parse_files(files):
    """-> list of (name, id or None, is_tmp, (cid, data) or None)"""
    out = []
    for f in files:
        name, cls = f.split("=", 1)
        tmp = name.endswith(".tmp")
        base = name[:-4] if tmp else name
        fid = int(base) if base.isdigit() else None
        full = None
        if cls.startswith("full("):
            a, b = cls[5:-1].split(",")
            full = (int(a), int(b))
        out.append((name, fid, tmp, full))
    return out


def oracle21(case, ans):
    """Judges the implementation's observations against the property text only. Returns a list of failures."""
    if "panic" in ans:
        return ["implementation panicked: " + ans["panic"]]
    fails = []
    mx = case["max"]
    issued = {}            # data -> True (payloads handed to checkpoint())
    seen_ids = set()       # ids that ever appeared under a final name
    max_seen = 0
    acked = None           # data of the last save that returned Ok
    since_ack = []         # payloads of saves started after the last acknowledged one (in flight at a crash)
    corrupted = False      # a corruption fault happened since the last completed save
    for i, (e, s) in enumerate(zip(case["events"], ans["steps"])):
        k = e[0]
        files = parse_files(s["files"])
        finals = [(fid, full) for (_, fid, tmp, full) in files if not tmp and fid is not None]
        res = s["res"]
        where = "event %d %s" % (i, e)
        if k in ("save", "savecrash") and res != "nomgr":
            issued[e[1]] = True
            if res.startswith("ok"):
                acked = e[1]
                since_ack = []
                corrupted = False
            else:
                since_ack.append(e[1])
            if res.startswith("err"):
                fails.append("%s: checkpoint() failed with %s" % (where, res))
        if k == "corrupt" and res == "ok":
            corrupted = True
        # ids keep increasing: the checkpoint a completed checkpoint() wrote carries an id above every id stored before
        if k in ("save", "savecrash") and res.startswith("ok"):
            mine = [fid for fid, full in finals if full is not None and full[1] == e[1]]
            if len(mine) != 1:
                fails.append("%s: the checkpoint just acknowledged is stored %d times (files %s)" % (where, len(mine), s["files"]))
            elif mine[0] <= max_seen:
                fails.append("%s: acknowledged checkpoint got id %d, ids up to %d were used before" % (where, mine[0], max_seen))
        # ... and any id that appears for the first time is above every id seen before
        for fid, full in sorted(finals):
            if fid not in seen_ids:
                if fid <= max_seen:
                    fails.append("%s: new checkpoint id %d is not above the ids used before (max %d)" % (where, fid, max_seen))
                seen_ids.add(fid)
                max_seen = max(max_seen, fid)
        # the readable, completely written checkpoints now stored
        complete = [(fid, full) for fid, full in finals if full is not None and full[0] == fid and full[1] in issued]
        rec = s["recover"]
        recv = None
        if rec.startswith("ck("):
            a, b = rec[3:-1].split(",")
            recv = (int(a), int(b))
        if complete:
            want = max(complete)[1]
            if recv != want:
                fails.append("%s: recovery gives %s, newest completely written readable checkpoint is %s (files %s)" % (where, rec, want, s["files"]))
        else:
            if recv is not None:
                fails.append("%s: recovery gives %s but no complete checkpoint is stored (files %s)" % (where, rec, s["files"]))
        # never a partial one / never something that was not written
        if recv is not None and recv[1] not in issued:
            fails.append("%s: recovery returned a checkpoint that was never written: %s" % (where, rec))
        # acknowledged checkpoints are not lost (unless the fault injected destroyed them)
        if acked is not None and not corrupted:
            ok_data = [acked] + since_ack
            if recv is None or recv[1] not in ok_data:
                fails.append("%s: recovery gives %s; the last acknowledged checkpoint carried %d (in flight since: %s)" % (where, rec, acked, since_ack))
        # the manager must come up whenever a readable checkpoint exists (and on an empty store)
        if k == "new" and res != "ok" and (complete or not finals):
            fails.append("%s: CheckpointManager::new failed (%s) although a readable checkpoint exists / store is empty" % (where, res))
        # at most max kept after each completed checkpoint()
        if k in ("save", "savecrash") and res.startswith("ok") and len(finals) > mx:
            fails.append("%s: %d checkpoints kept after a completed checkpoint(), max_checkpoints = %d" % (where, len(finals), mx))
    return fails


# ---------------------------------------------------------------- C21: generation
def exhaustive21(max_saves=8, maxes=(1, 2, 3), torn_values=(None, 0, 7, 100000), corrupt=True):
    """Every crash point of the i-th save of a history of saves, for every i, followed by restart + two saves;
    and corruption of the newest file after i saves."""
    cases = []
    for mx in maxes:
        for i in range(max_saves):
            pre = [["new"]] + [["save", 100 + j] for j in range(i)]
            # a checkpoint() issues 2 mutations + the prunes (<= 2 when coming from a clean state; more after crashes)
            for k in range(0, 5):
                torns = torn_values if k == 0 else (None,)
                for t in torns:
                    ev = pre + [["savecrash", 100 + i, k, t], ["new"], ["save", 200], ["save", 201]]
                    cases.append({"max": mx, "events": ev})
            if corrupt and i >= 1:
                for kind in CORRUPT_KINDS:
                    ev = pre + [["corrupt", kind, 5 + 11 * i], ["new"], ["save", 200], ["save", 201]]
                    cases.append({"max": mx, "events": ev})
    return cases


def gen_case21(rng, max_saves=8):
    mx = rng.range(1, 3)
    ev = [["new"]]
    saves = 0
    d = 10
    n = rng.range(3, 14)
    alive = True
    for _ in range(n):
        k = rng.below(100)
        if not alive or k < 10:
            ev.append(["new"])
            alive = True
        elif k < 50 and saves < max_saves:
            d += 1
            saves += 1
            ev.append(["save", d])
        elif k < 85 and saves < max_saves:
            d += 1
            saves += 1
            kk = rng.choice([0, 0, 1, 2, 2, 3, 4, 5, 9])
            torn = rng.choice([None, None, 0, 1, 20, 133, 134, 500]) if kk == 0 else None
            ev.append(["savecrash", d, kk, torn])
            alive = kk >= 6        # generator-side guess only; a wrong guess just yields a "nomgr" no-op on both sides
        elif k < 95:
            ev.append(["corrupt", rng.choice(CORRUPT_KINDS), rng.below(200)])
        else:
            ev.append(["new"])
            alive = True
    if rng.chance(2, 3):
        ev.append(["new"])
        if saves < max_saves:
            ev.append(["save", d + 1])
    return {"max": mx, "events": ev}


CORPUS21 = [
    # DESIGN §7 C21 expected defect: newest file unreadable, an older readable one exists (repaired by the fix commit)
    {"max": 2, "events": [["new"], ["save", 5], ["save", 6], ["corrupt", "trunc", 10], ["new"], ["save", 7], ["save", 8]]},
    {"max": 3, "events": [["new"], ["save", 5], ["save", 6], ["save", 7], ["corrupt", "garbage", 0], ["corrupt", "empty", 0], ["new"], ["save", 8]]},
    # crash between save and prune, repeatedly
    {"max": 1, "events": [["new"], ["save", 1], ["savecrash", 2, 2, None], ["new"], ["savecrash", 3, 2, None], ["new"], ["savecrash", 4, 3, None], ["new"], ["save", 5]]},
    # torn temp file, then the same id is written again
    {"max": 2, "events": [["new"], ["save", 1], ["savecrash", 2, 0, 40], ["new"], ["savecrash", 3, 1, None], ["new"], ["save", 4]]},
]


def shrink21(case, still_fails):
    ev = list(case["events"])
    changed = True
    while changed:
        changed = False
        for i in range(len(ev) - 1, -1, -1):
            cand = {"max": case["max"], "events": ev[:i] + ev[i + 1:]}
            if cand["events"] and still_fails(cand):
                ev = cand["events"]
                changed = True
                break
    return {"max": case["max"], "events": ev}


def build(run, targets, audit_file, allow=()):
    coqtools.prove(run, targets, audit_file, allow)
    okb, bindir, blog = harness.build("vp-store")
    if not okb:
        run.tie_broken("harness build vp-store", blog[-3000:])
        return None
    return os.path.join(bindir, "vp-store")


# ====================================================================== C22
IMPORTS22 = ("From Coq Require Import String List NArith.\nImport ListNotations.\n"
             "From VP Require Import Base.Render Store.Tenant Store.TenantRun.\nOpen Scope N_scope.\n")


def num(sym):
    """'t3' / 'p2' / 'src1' -> 3 / 2 / 1; anything else is returned unchanged (and will not match the model)"""
    for pre in ("src", "t", "p"):
        if isinstance(sym, str) and sym.startswith(pre) and sym[len(pre):].isdigit():
            return int(sym[len(pre):])
    return sym


def g_op22(o):
    k = o[0]
    if k == "create":
        n = num(o[1])
        return "OCreate %d %d %d" % (n, n, n)
    if k == "deltenant":
        return "ODelTenant %d" % num(o[1])
    if k == "deploy":
        return "ODeploy %d %d %d %d" % (num(o[1]), num(o[2]), num(o[2]), o[3])
    if k == "delpipe":
        return "ODelPipe %d %d" % (num(o[1]), num(o[2]))
    if k == "reload":
        return "OReload %d %d %d" % (num(o[1]), num(o[2]), o[3])
    if k == "restart":
        return "ORestart"
    raise ValueError(k)


def g_case22(case):
    b = "None" if case["crash_after"] is None else "(Some %d%%nat)" % case["crash_after"]
    return "c22_case [%s] %s" % ("; ".join(g_op22(o) for o in case["ops"]), b)


def _status(s):
    return 0 if str(s).lower() == "running" else "?%s" % s


def _r_pipes(pipes):
    ps = sorted(((num(p[0]), num(p[1]), num(p[2]), _status(p[3])) for p in pipes), key=lambda x: str(x[0]).zfill(9))
    return ",".join("p%s:%s:s%s:%s" % p for p in ps)


def impl_str22(ans):
    if "panic" in ans:
        return "PANIC " + ans["panic"]
    steps = ",".join(("a" if 200 <= s["status"] < 300 else "r") + str(s["writes"]) + ("F" if s["frozen"] else "") for s in ans["steps"])
    idx = ans["store"]["index"]
    index = "none" if idx is None else "[" + ",".join("t%s" % num(x) for x in idx) + "]"
    snaps = []
    for key_t, id_t, name, key_owner, pipes in sorted(ans["store"]["snapshots"], key=lambda s: str(num(s[1])).zfill(9)):
        if key_t != id_t:
            snaps.append("MISFILED(%s under %s)" % (id_t, key_t))
        snaps.append("t%s(%s,%s,[%s])" % (num(id_t), num(name), num(key_owner), _r_pipes(pipes)))
    rec = []
    for id_t, name, key_owner, by_key, pipes in sorted(ans["recovered"], key=lambda s: str(num(s[0])).zfill(9)):
        rec.append("t%s(%s,%s,[%s])" % (num(id_t), num(name), num(key_owner), _r_pipes(pipes)))
    return "steps=%s|index=%s|snaps=%s|rec=%s" % (steps, index, ";".join(snaps), ";".join(rec))


def abstract_apply(state, o):
    """the acknowledged effect of an operation on the abstract server state {tenant: {pipeline: source}}"""
    st = {t: dict(p) for t, p in state.items()}
    k = o[0]
    if k == "create":
        st[o[1]] = {}
    elif k == "deltenant":
        st.pop(o[1], None)
    elif k == "deploy":
        st[o[1]][o[2]] = o[3]
    elif k == "delpipe":
        st[o[1]].pop(o[2], None)
    elif k == "reload":
        st[o[1]][o[2]] = o[3]
    return st


def oracle22(case, ans):
    """Property text only: what a restarted server holds is the acknowledged state, give or take the in-flight operation."""
    if "panic" in ans:
        return ["implementation panicked: " + ans["panic"]]
    state = {}
    before = {}
    inflight = False
    for o, s in zip(case["ops"], ans["steps"]):
        before = state
        if 200 <= s["status"] < 300 and o[0] != "restart":
            try:
                state = abstract_apply(state, o)
            except KeyError:
                return ["operation %s acknowledged (HTTP %s) on a tenant/pipeline that does not exist" % (o, s["status"])]
        inflight = s["frozen"]
    allowed = [state, before] if inflight else [state]
    got = {}
    fails = []
    for id_t, name, key_owner, by_key, pipes in ans["recovered"]:
        if name != id_t:
            fails.append("tenant %s recovered with name %s" % (id_t, name))
        if key_owner != id_t:
            fails.append("tenant %s recovered with the API key of %s" % (id_t, key_owner))
        if by_key != id_t:
            fails.append("API key of tenant %s resolves to %s after recovery" % (id_t, by_key))
        ps = {}
        for pid, pname, src, status in pipes:
            if pname != pid:
                fails.append("pipeline %s of %s recovered with name %s" % (pid, id_t, pname))
            if str(status).lower() != "running":
                fails.append("pipeline %s of %s recovered with status %s" % (pid, id_t, status))
            ps[pid] = num(src)
        got[id_t] = ps
    if got not in allowed:
        fails.append("recovered %s; acknowledged state %s%s" % (json.dumps(got, sort_keys=True), json.dumps(state if not inflight else before, sort_keys=True),
                                                               (" or, with the in-flight operation, %s" % json.dumps(state, sort_keys=True)) if inflight else ""))
    if ans.get("recover_result", 0) < 0:
        fails.append("recover() returned an error")
    # what is persisted: without a crash the stored snapshots of the live tenants carry exactly the acknowledged pipelines and sources
    if not inflight:
        stored = {}
        for key_t, id_t, name, key_owner, pipes in ans["store"]["snapshots"]:
            stored[id_t] = {pid: num(src) for pid, pname, src, status in pipes}
        for t, ps in state.items():
            if stored.get(t) != ps:
                fails.append("stored snapshot of %s holds %s, acknowledged %s" % (t, json.dumps(stored.get(t), sort_keys=True), json.dumps(ps, sort_keys=True)))
    return fails


def reload_kinds22(case, ans):
    """for the input distribution: how each acknowledged reload's source relates to the one deployed before it"""
    state = {}
    kinds = []
    for o, s in zip(case["ops"], ans.get("steps", [])):
        ack = 200 <= s["status"] < 300
        if o[0] == "reload":
            old = state.get(o[1], {}).get(o[2]) if ack else None
            kinds.append(reload_kind(old, o[3]))
        if ack and o[0] != "restart":
            try:
                state = abstract_apply(state, o)
            except KeyError:
                pass
    return kinds


N_SOURCES = 8
SAME_STREAMS = (0, 1, 2, 3, 4)      # harness SOURCES 0-4 declare the same stream: reloading between them changes no stream


def reload_kind(old, new):
    """how the new source of a reload relates to the deployed one (harness/crates/store/src/tenants.rs SOURCES)"""
    if old is None:
        return "rejected"
    if old == new:
        return "byte-identical"
    if old in SAME_STREAMS and new in SAME_STREAMS:
        return {1: "comment/whitespace-only", 2: "function-body-only", 3: "event-declaration-only", 4: "constant-only"}.get(
            new if new != 0 else old, "non-stream-only")
    return "stream-changed"


def pick_source(rng, current=None):
    if current is not None:
        k = rng.below(10)
        if k == 0:
            return current                                  # (a) byte-identical
        if k < 7 and current in SAME_STREAMS:
            return rng.choice([x for x in SAME_STREAMS if x != current])     # (b)/(c) streams untouched
        return rng.choice([x for x in range(N_SOURCES) if x != current])    # anything else, mostly (d)
    return rng.choice([0, 0, 0, 1, 2, 3, 4, 5, 6, 7])


def gen_history22(rng, maxlen=8):
    ops = []
    created = []
    alive = set()
    pipes = {}          # pname -> tname (alive)
    src = {}            # pname -> source index deployed (generator-side guess)
    next_p = 1
    n = rng.range(2, maxlen)
    while len(ops) < n:
        k = rng.below(100)
        if (not created or k < 15) and len(created) < 2:
            t = "t%d" % (len(created) + 1)
            created.append(t)
            alive.add(t)
            ops.append(["create", t])
        elif k < 40 and next_p <= 3 and created:
            t = rng.choice(sorted(alive)) if alive and rng.chance(9, 10) else rng.choice(created)
            p = "p%d" % next_p
            next_p += 1
            sx = pick_source(rng)
            ops.append(["deploy", t, p, sx])
            if t in alive:
                pipes[p] = t
                src[p] = sx
        elif k < 66 and next_p > 1:
            p = rng.choice(sorted(pipes)) if pipes and rng.chance(5, 6) else "p%d" % rng.range(1, next_p - 1)
            t = pipes.get(p) or rng.choice(created)
            sx = pick_source(rng, src.get(p) if p in pipes else None)
            ops.append(["reload", t, p, sx])
            if p in pipes:
                src[p] = sx
        elif k < 74 and next_p > 1:
            p = rng.choice(sorted(pipes)) if pipes and rng.chance(5, 6) else "p%d" % rng.range(1, next_p - 1)
            t = pipes.get(p) or rng.choice(created)
            ops.append(["delpipe", t, p])
            pipes.pop(p, None)
        elif k < 81 and created:
            t = rng.choice(created)
            ops.append(["deltenant", t])
            alive.discard(t)
            for p in [p for p, tt in pipes.items() if tt == t]:
                pipes.pop(p)
        elif k < 92:
            ops.append(["restart"])
        elif created:
            # a request that must be rejected: wrong tenant for the pipeline, or unknown pipeline
            t = rng.choice(created)
            ops.append(rng.choice([["reload", t, "p9", 0], ["delpipe", t, "p9"], ["deploy", "t9", "p%d" % min(next_p, 3), 0]]))
    return ops


CORPUS22 = [
    [["create", "t1"], ["deploy", "t1", "p1", 0], ["create", "t2"], ["reload", "t1", "p1", 6], ["deploy", "t2", "p2", 7], ["delpipe", "t1", "p1"], ["deltenant", "t2"], ["restart"]],
    [["create", "t1"], ["deltenant", "t1"], ["restart"], ["create", "t2"], ["deploy", "t2", "p1", 6], ["deploy", "t1", "p2", 0]],
    [["create", "t1"], ["create", "t2"], ["deploy", "t1", "p1", 0], ["deploy", "t1", "p2", 6], ["deploy", "t2", "p3", 7], ["delpipe", "t1", "p1"], ["reload", "t2", "p3", 0], ["deltenant", "t1"]],
    # regression (seeded/C22-reload-keeps-old-source-when-report-empty): an acknowledged reload whose new source leaves every
    # stream declaration as it is — function body only, comment only, byte-identical, then a stream change — must be what a
    # restarted server holds
    [["create", "t1"], ["create", "t2"], ["deploy", "t1", "p1", 0], ["deploy", "t2", "p2", 6], ["deploy", "t2", "p3", 7], ["reload", "t1", "p1", 2]],
    [["create", "t1"], ["deploy", "t1", "p1", 0], ["reload", "t1", "p1", 1], ["restart"], ["reload", "t1", "p1", 1], ["reload", "t1", "p1", 3], ["reload", "t1", "p1", 4], ["reload", "t1", "p1", 5]],
    [["create", "t1"], ["deploy", "t1", "p1", 2], ["reload", "t1", "p1", 0], ["restart"], ["deploy", "t1", "p2", 5], ["reload", "t1", "p2", 0]],
]
