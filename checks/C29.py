"""C29 — every API endpoint enforces its required role."""
import json
import os

from checks import tenant_common as T
from vplib import coqtools, harness

META = {
    "technique": "Coq proof over route tables regenerated from the three warp route builders (translator) + route x credential x configuration matrix through warp::test on the real filters with state snapshots",
    "design_ref": "DESIGN.md §7 C29, §13 routes.py",
    "level_text": "Theorems C29_* in coq/theories/Rbac/Props.v: for every request (any method, path, header values, body/query state) and every configuration, a handler body runs only if the request addresses a documented endpoint whose documented access the credential grants (and conversely when inputs are well-formed); the unique addressed route decides alone (no shadowing); a failing auth filter ends the route before body/query/state filters and the handler. The route tables (order of the .or chain, filter order of every route, first action of every CLI handler) are regenerated from /repo on every run; the documented policy is coq/theories/Rbac/Policy.v (from docs/api-changelog.md)",
    "level_note": "Modelled, not verified: warp's filter semantics (and = left-to-right, or = first non-rejecting, Rejection::find over the combined rejection), the rejection -> status mapping of the two recover functions (tied by the differential run), HashMap key uniqueness (hypothesis cfg_wf), RbacConfig::any_admin_key modelled as the first admin key (HashMap order is arbitrary; the differential run reorders the key list by the key actually used). State purity of rejected requests is *proved* only as 'no filter behind the auth filter and no handler runs'; that handlers' key checks come first is asserted by the translator on the handler text; that a rejected request leaves coordinator / tenant / Raft state unchanged is *tested* by snapshots around every request. The routes assembled in crates/varpulis-cli/src/main.rs (ws, /health, /ready, /metrics) are in the binary, not in a library: outside the harness' reach. Rate-limiter token consumption before auth is not coordinator state. The Raft server role (Learner/Follower/...) is time-driven and excluded from the Raft snapshot",
}

SRC0 = "stream Out = A\n    .where(x > 0)\n    .emit(v: x)\n"
SRC1 = "stream Out = A\n    .where(x > 10)\n    .emit(v: x)\n"
VOTE = {"leader_id": {"term": 1, "node_id": 1}, "committed": False}
EMPTY_CP = {"version": 1, "window_states": {}, "sase_states": {}, "join_states": {}, "variables": {},
            "events_processed": 0, "output_events_emitted": 0}

# documented endpoints (docs/api-changelog.md; raft/routes.rs): name, method, path template, valid JSON body or None.
# {w} {g} {c} {m} {x} are path parameters; the access level is NOT listed here: the oracle takes it from Rbac/Policy.v.
CL = "/api/v1/cluster"
ENDPOINTS = {
    "cluster": [
        ("register_worker", "POST", CL + "/workers/register", {"worker_id": "w9", "address": "http://127.0.0.1:1", "api_key": "k", "capacity": {"cpu_cores": 1, "pipelines_running": 0, "max_pipelines": 4}}),
        ("heartbeat", "POST", CL + "/workers/{w}/heartbeat", {"events_processed": 1, "pipelines_running": 0, "pipeline_metrics": []}),
        ("list_workers", "GET", CL + "/workers", None),
        ("get_worker", "GET", CL + "/workers/{w}", None),
        ("delete_worker", "DELETE", CL + "/workers/{w}", None),
        ("drain_worker", "POST", CL + "/workers/{w}/drain", {"timeout_secs": 1}),
        ("deploy_group", "POST", CL + "/pipeline-groups", {"name": "g2", "pipelines": [{"name": "p", "source": SRC0}], "routes": []}),
        ("list_groups", "GET", CL + "/pipeline-groups", None),
        ("get_group", "GET", CL + "/pipeline-groups/{g}", None),
        ("delete_group", "DELETE", CL + "/pipeline-groups/{g}", None),
        ("inject_event", "POST", CL + "/pipeline-groups/{g}/inject", {"event_type": "A", "fields": {"x": 1}}),
        ("inject_batch", "POST", CL + "/pipeline-groups/{g}/inject-batch", {"events_text": "A { x: 1 }"}),
        ("list_connectors", "GET", CL + "/connectors", None),
        ("get_connector", "GET", CL + "/connectors/{c}", None),
        ("create_connector", "POST", CL + "/connectors", {"name": "c2", "connector_type": "mqtt", "params": {"host": "h"}}),
        ("update_connector", "PUT", CL + "/connectors/{c}", {"name": "c1", "connector_type": "mqtt", "params": {"host": "h2"}}),
        ("delete_connector", "DELETE", CL + "/connectors/{c}", None),
        ("topology", "GET", CL + "/topology", None),
        ("validate", "POST", CL + "/validate", {"source": SRC0}),
        ("rebalance", "POST", CL + "/rebalance", None),
        ("list_migrations", "GET", CL + "/migrations", None),
        ("get_migration", "GET", CL + "/migrations/{x}", None),
        ("manual_migrate", "POST", CL + "/pipelines/{g}/{x}/migrate", {"target_worker_id": "w2"}),
        ("metrics", "GET", CL + "/metrics", None),
        ("prometheus_metrics", "GET", CL + "/prometheus", None),
        ("scaling", "GET", CL + "/scaling", None),
        ("summary", "GET", CL + "/summary", None),
        ("raft_status", "GET", CL + "/raft", None),
        ("list_models", "GET", CL + "/models", None),
        ("upload_model", "POST", CL + "/models", {"name": "m2", "inputs": ["x"], "outputs": ["y"]}),
        ("delete_model", "DELETE", CL + "/models/{m}", None),
        ("download_model", "GET", CL + "/models/{m}/download", None),
        ("chat", "POST", CL + "/chat", {"messages": [{"role": "user", "content": "hi"}]}),
        ("get_chat_config", "GET", CL + "/chat/config", None),
        ("update_chat_config", "PUT", CL + "/chat/config", {"endpoint": "http://127.0.0.1:1", "model": "m", "provider": "openai-compatible"}),
    ],
    "raft": [
        ("vote", "POST", "/raft/vote", {"vote": VOTE, "last_log_id": None}),
        ("append", "POST", "/raft/append", {"vote": VOTE, "prev_log_id": None, "entries": [], "leader_commit": None}),
        ("snapshot", "POST", "/raft/snapshot", {"vote": VOTE, "meta": {"last_log_id": None, "last_membership": {"log_id": None, "membership": {"configs": [], "nodes": {}}}, "snapshot_id": "s1"}, "offset": 0, "data": [], "done": True}),
        ("init", "POST", "/raft/init", {"members": {"2": "http://127.0.0.1:1"}}),
        ("add_learner", "POST", "/raft/add-learner", {"node_id": 3, "addr": "http://127.0.0.1:1"}),
        ("change_membership", "POST", "/raft/change-membership", {"members": [2]}),
        ("metrics", "GET", "/raft/metrics", None),
    ],
    "cli": [
        ("deploy", "POST", "/api/v1/pipelines", {"name": "n", "source": SRC0}),
        ("list", "GET", "/api/v1/pipelines", None),
        ("get_pipeline", "GET", "/api/v1/pipelines/{p}", None),
        ("delete", "DELETE", "/api/v1/pipelines/{p}", None),
        ("inject", "POST", "/api/v1/pipelines/{p}/events", {"event_type": "A", "fields": {"x": 5}}),
        ("inject_batch", "POST", "/api/v1/pipelines/{p}/events-batch", {"events": [{"event_type": "A", "fields": {"x": 5}}]}),
        ("metrics", "GET", "/api/v1/pipelines/{p}/metrics", None),
        ("reload", "POST", "/api/v1/pipelines/{p}/reload", {"source": SRC1}),
        ("checkpoint", "POST", "/api/v1/pipelines/{p}/checkpoint", None),
        ("restore", "POST", "/api/v1/pipelines/{p}/restore", {"checkpoint": EMPTY_CP}),
        ("logs", "GET", "/api/v1/pipelines/{p}/logs", None),
        ("usage", "GET", "/api/v1/usage", None),
        ("create", "POST", "/api/v1/tenants", {"name": "t"}),
        ("list_tenants", "GET", "/api/v1/tenants", None),
        ("get_tenant", "GET", "/api/v1/tenants/{t}", None),
        ("delete_tenant", "DELETE", "/api/v1/tenants/{t}", None),
    ],
}
ENDPOINTS["raftcluster"] = ENDPOINTS["raft"] + ENDPOINTS["cluster"]
PARAMS = {"w": "w1", "g": "g1", "c": "c1", "m": "m1", "x": "x1", "p": "{pA}", "t": "{tB}"}

# RBAC configurations: (name, keys [(key, role)], anonymous allowed, anonymous role); None = RbacConfig::disabled()
RBACS = [
    ("disabled", None),
    ("single", ([("ka", "admin")], False, "viewer")),
    ("multi3", ([("ka", "admin"), ("ko", "operator"), ("kv", "viewer")], False, "viewer")),
    ("multi-no-admin", ([("ko", "operator"), ("kv", "viewer")], False, "viewer")),
    ("anon-viewer", ([("ka", "admin"), ("ko", "operator")], True, "viewer")),
    ("anon-operator", ([("ka", "admin")], True, "operator")),
    ("two-admins", ([("ka", "admin"), ("kb", "admin"), ("kv", "viewer")], False, "viewer")),
]
# credentials: (kind, x-api-key, x-admin-key)
CREDS = [("none", None, None), ("wrong", "nope", None), ("viewer", "kv", None), ("operator", "ko", None),
         ("admin", "ka", None), ("admin2", "kb", None), ("tenant-a", "key-a", None), ("tenant-b", "key-b", None),
         ("raftkey", "rk", None), ("adminhdr", None, "adm"), ("adminhdr-wrong", None, "nope"),
         ("tenant-a+adminhdr", "key-a", "adm"), ("adminkey-as-apikey", "adm", None),
         # near misses of real keys: prefix, extension, other case, empty
         ("admin-prefix", "k", None), ("admin-extended", "kaa", None), ("admin-upper", "KA", None), ("empty", "", None),
         ("tenant-prefix", "key-", None), ("tenant-extended", "key-ab", None), ("adminhdr-prefix", None, "ad"), ("adminhdr-extended", None, "admx")]
METHODS = ["GET", "POST", "PUT", "DELETE", "PATCH"]
REJECT_MSGS = {"Invalid or missing API key", "Insufficient permissions for this operation", "Missing API key header",
               "Invalid query parameters", "Request payload too large", "Unsupported media type", "Method not allowed",
               "Not found", "Internal server error", "Authentication required", "Invalid API key", "Malformed authorization header"}
CLI_DENY_CODES = {"invalid_api_key", "invalid_key", "invalid_admin_key", "admin_disabled"}


def classify(app, st, body):
    """observed answer -> 'S' (a handler body ran) | 'D:<status>' (CLI handler's key check refused) | 'R:<status>' (rejection)"""
    if st == 0:
        return "S" if body.get("timeout") else "X"
    if isinstance(body, dict):
        err = body.get("error")
        code = body.get("code")
        if app == "cli":
            if code in CLI_DENY_CODES:
                return "D:%d" % st
            if code is None and isinstance(err, str) and (err in REJECT_MSGS or err.startswith("Invalid request body")) and set(body) == {"error"}:
                return "R:%d" % st
        else:
            if code == str(st) and isinstance(err, str) and (err in REJECT_MSGS or err.startswith("Invalid request body")):
                return "R:%d" % st
            if st == 429 and err == "rate_limited":
                return "R:429"
    return "S"


def fill(path, sub=None):
    p = path
    for k, v in PARAMS.items():
        p = p.replace("{%s}" % k, v if sub is None else sub.get(k, v))
    return p


def segs(path):
    return [s for s in path.split("/") if s]


class Case:
    __slots__ = ("app", "rbac", "raft_key", "admin_key", "limited", "ep", "variant", "cred", "method", "path", "key", "akey", "body", "query")

    def world(self):
        return (self.app, self.rbac, self.raft_key, self.admin_key, self.limited)


def mk(app, rbac, raft_key, admin_key, limited, ep, variant, cred, method, path, body, query=""):
    c = Case()
    c.app, c.rbac, c.raft_key, c.admin_key, c.limited = app, rbac, raft_key, admin_key, limited
    c.ep, c.variant, c.cred, c.method, c.path = ep, variant, cred[0], method, path
    c.key, c.akey, c.body, c.query = cred[1], cred[2], body, query
    return c


def worlds(tier):
    ws = []
    for name, _ in RBACS:
        ws.append(("cluster", name, None, None, False))
    ws.append(("cluster", "multi3", None, None, True))          # exhausted rate limiter
    for rk in (None, "rk"):
        ws.append(("raft", "disabled", rk, None, False))
    for name in ("disabled", "single", "multi3", "multi-no-admin", "two-admins"):
        ws.append(("raftcluster", name, None, None, False))
    for ak in (None, "adm"):
        ws.append(("cli", "disabled", None, ak, False))
    return ws


def gen_cases(run):
    rng = run.rng
    cases = []
    for (app, rbac, rk, ak, lim) in worlds(run.tier):
        eps = ENDPOINTS[app]
        creds = CREDS
        if app in ("cluster", "raft", "raftcluster"):
            creds = [c for c in CREDS if c[2] is None]
        if app in ("raft", "raftcluster"):
            # every request bootstraps a Raft node: fewer credentials; the cluster half of the combined tree is sampled
            # (it is the same filter as the cluster application, only behind the Raft routes in the chain)
            creds = [c for c in creds if c[0] in ("none", "wrong", "viewer", "operator", "admin", "admin2", "raftkey", "admin-prefix", "admin-extended")]
        if app == "raftcluster":
            eps = ENDPOINTS["raft"] + rng.shuffle(ENDPOINTS["cluster"])[:6 if run.tier != "thorough" else 14]
        for (name, meth, tmpl, body) in eps:
            path = fill(tmpl)
            b = {"j": body} if body is not None else {}
            # the matrix proper: every endpoint x every credential
            for cred in creds:
                cases.append(mk(app, rbac, rk, ak, lim, name, "exact", cred, meth, path, b))
            # variants, sampled: other methods, longer / shorter paths, parameters that spell another route's literal,
            # missing / malformed bodies, a bad query string
            vs = []
            for m2 in METHODS:
                if m2 != meth:
                    vs.append(("method-" + m2, m2, path, b, ""))
            vs.append(("extra-segment", meth, path + "/zz", b, ""))
            vs.append(("truncated", meth, "/" + "/".join(segs(path)[:-1]), b, ""))
            for lit in ("register", "config", "download", "heartbeat", "metrics"):
                if "{" in tmpl:
                    sub = {k: lit for k in PARAMS}
                    vs.append(("param=" + lit, meth, fill(tmpl, sub), b, ""))
            if body is not None:
                vs.append(("no-body", meth, path, {}, ""))
                vs.append(("bad-body", meth, path, {"r": "{not json"}, ""))
            if meth == "GET" and name.startswith("list"):
                vs.append(("bad-query", meth, path, b, "limit=abc"))
            nv = len(vs) if run.tier == "thorough" else 2
            for v in rng.shuffle(vs)[:nv]:
                ncred = 7 if run.tier == "thorough" else 2
                for cred in rng.shuffle(creds)[:ncred]:
                    cases.append(mk(app, rbac, rk, ak, lim, name, v[0], cred, v[1], v[2], v[3], v[4]))
    return cases


# ---- harness side ------------------------------------------------------------------------------
def rbac_json(name):
    spec = dict(RBACS)[name]
    if spec is None:
        return None
    return {"keys": [[k, r] for k, r in spec[0]], "anon": spec[1], "anon_role": spec[2]}


TENANTS = [["key-a", 1], ["key-b", 1]]


def run_impl(binpath, cases):
    """-> list of observed results aligned with cases (each carries the Raft key its world used: `raft_key_used`)"""
    by_world = {}
    for i, c in enumerate(cases):
        by_world.setdefault(c.world(), []).append(i)
    reqs = []
    order = []
    for w, idxs in by_world.items():
        app, rbac, rk, ak, lim = w
        for k in range(0, len(idxs), 150):
            chunk = idxs[k:k + 150]
            rs = []
            for i in chunk:
                c = cases[i]
                hs = []
                if c.key is not None:
                    hs.append(["x-api-key", c.key])
                if c.akey is not None:
                    hs.append(["x-admin-key", c.akey])
                rs.append({"m": c.method, "p": c.path + ("?" + c.query if c.query else ""), "h": hs, "b": c.body})
            reqs.append({"mode": "http", "app": app, "rbac": rbac_json(rbac), "raft_key": rk, "admin_key": ak,
                         "limited": lim, "tenants": TENANTS, "requests": rs})
            order.append(chunk)
    answers = harness.run_jsonl(binpath, reqs, timeout=3000)
    out = [None] * len(cases)
    for chunk, a in zip(order, answers):
        if "results" not in a:
            raise RuntimeError("harness answer without results: %s" % str(a)[:400])
        for i, r in zip(chunk, a["results"]):
            out[i] = r
    return out


# ---- model side --------------------------------------------------------------------------------
APP_COQ = {"cluster": "AppCluster", "raft": "AppRaft", "raftcluster": "AppRaftCluster", "cli": "AppCli"}
ROLE_COQ = {"admin": "Admin", "operator": "Operator", "viewer": "Viewer"}
METH_COQ = {"GET": "GET", "POST": "POST", "PUT": "PUT", "DELETE": "DELETE"}


def cfg_coq(c, used_key):
    spec = dict(RBACS)[c.rbac]
    if spec is None:
        rb = "rbac_disabled"
    else:
        keys = list(spec[0])
        if c.app == "raftcluster" and used_key is not None:
            # HashMap iteration order is not modelled: list the admin key any_admin_key() returned first
            keys.sort(key=lambda kr: 0 if kr[0] == used_key else 1)
        rb = "(mkRbac %s %s %s)" % (T.g_list(keys, lambda kr: "(%s, %s)" % (T.g_str(kr[0]), ROLE_COQ[kr[1]])),
                                    "true" if spec[1] else "false", ROLE_COQ[spec[2]])
    return "(mkCfg %s %s %s %s %s)" % (rb, T.g_opt_str(c.raft_key), T.g_opt_str(c.admin_key),
                                       T.g_list([t[0] for t in TENANTS], T.g_str), "false" if c.limited else "true")


def req_coq(c):
    body = "BNone" if not c.body else ("BGood" if "j" in c.body else "BBad")
    path = [s.replace("{pA}", "pA").replace("{tB}", "tB") for s in segs(c.path)]
    return "(mkReq %s %s %s %s %s %s)" % (METH_COQ.get(c.method, "OTHERM"), T.g_list(path, T.g_str), T.g_opt_str(c.key),
                                          T.g_opt_str(c.akey), body, "false" if c.query else "true")


IMPORTS = ("From Coq Require Import String List Bool Arith.\nImport ListNotations.\n"
           "From VP Require Import Rbac.Syntax Rbac.Model Rbac.Policy Rbac.Apps Rbac.Run.\nOpen Scope string_scope.\n")


def describe(c):
    return {"app": c.app, "rbac": c.rbac, "raft_key": c.raft_key, "admin_key": c.admin_key, "rate_limited": c.limited,
            "endpoint": c.ep, "variant": c.variant, "credential": c.cred, "method": c.method, "path": c.path,
            "x-api-key": c.key, "x-admin-key": c.akey, "body": c.body, "query": c.query}


def judge(c, obs, verdict):
    """oracle, straight from the property text: served only if the documented policy grants; a request that is not
    served leaves the state unchanged.  -> list of failure strings"""
    fails = []
    cls = classify(c.app, obs["st"], obs["body"])
    if cls == "X":
        return ["no HTTP answer: %s" % str(obs)[:200]]
    if cls == "S" and verdict in ("refused", "none"):      # "unknown": the policy could not be evaluated (reported as a broken tie)
        fails.append("%s %s with credential %s (config %s) was served (HTTP %s) although the documented policy %s"
                     % (c.method, c.path, c.cred, c.rbac, obs["st"],
                        "refuses this credential" if verdict == "refused" else "has no such endpoint"))
    if cls != "S" and obs.get("changed"):
        fails.append("%s %s with credential %s (config %s) was refused (HTTP %s) but changed the state: %s"
                     % (c.method, c.path, c.cred, c.rbac, obs["st"], obs.get("diff")))
    return fails


def check(run):
    run.rule = ("every documented endpoint of the cluster, Raft, Raft+cluster and tenant/admin route trees x 21 credential kinds "
                "(none, wrong, viewer, operator, admin, second admin, tenant keys, Raft key, admin header right/wrong, prefixes / extensions / other case of real keys, empty) x RBAC configurations "
                "(disabled, single key, multi-key with/without admin key, two admin keys, anonymous viewer/operator; Raft key set/unset; admin key set/unset; "
                "rate limiter exhausted), plus sampled variants (other methods, longer/shorter paths, parameters spelling another route's literal, "
                "missing/malformed body, bad query); each request on a fresh world with state snapshots before/after; "
                "non-trivial = request that addresses a documented endpoint; distinct = distinct (world, endpoint, variant, credential)")
    run.trusted += ["Coq 8.16.1 kernel + vm_compute",
                    "translator translate/routes.py (extraction of the three route builders, handler prologues, hash pins of the auth helper filters)",
                    "documented policy transcribed into coq/theories/Rbac/Policy.v from docs/api-changelog.md and raft/routes.rs",
                    "warp filter semantics as modelled in Rbac/Model.v (tied by the differential run: served / denied / rejected and status code per request)",
                    "Rust harness harness/crates/api (warp::test on the real filters and recover functions; state snapshots), Python driver"]
    run.assumptions += ["RBAC keys are distinct (HashMap)", "path segments are non-empty; no percent-encoding; header values are visible ASCII"]
    T.run_translator(run, "routes.py", "shape of cluster_routes / raft_routes / api_routes / tenant_admin_routes and the CLI handler prologues")
    binpath = T.build(run, ["theories/Rbac/Props.vo", "theories/Rbac/Run.vo"], "C29.v")
    if binpath is None:
        return
    cases = gen_cases(run)
    import time
    t0 = time.time()
    obs = run_impl(binpath, cases)
    run.extra["seconds_implementation"] = round(time.time() - t0, 1)
    t0 = time.time()
    exprs = []
    for c, o in zip(cases, obs):
        cfg = cfg_coq(c, o.get("raft_key_used"))
        q = req_coq(c)
        exprs.append('case %s %s %s ++ "|" ++ policy_verdict %s %s %s' % (APP_COQ[c.app], cfg, q, APP_COQ[c.app], cfg, q))
    model = None
    try:
        model = coqtools.coq_eval("C29", IMPORTS, exprs, shard=max(50, len(exprs) // 12 + 1), timeout=1500)
    except RuntimeError as e:
        run.tie_broken("model evaluation (coqc cases)", str(e))
    run.extra["seconds_model"] = round(time.time() - t0, 1)
    n_or = n_co = 0
    for k, (c, o) in enumerate(zip(cases, obs)):
        cls = classify(c.app, o["st"], o["body"])
        pred, verdict = (model[k].split("|") if model is not None else (None, "unknown"))
        run.case((c.world(), c.ep, c.variant, c.cred) if verdict != "none" else None,
                 sample=dict(describe(c), observed=cls, status=o["st"], model=pred) if k % 997 == 0 else None)
        run.count("app=" + c.app)
        run.count("credential=" + c.cred)
        run.count("config=" + c.rbac + ("+raftkey" if c.raft_key else "") + ("+adminkey" if c.admin_key else "") + ("+ratelimited" if c.limited else ""))
        run.count("variant=" + (c.variant if not c.variant.startswith(("method-", "param=")) else c.variant.split("-")[0].split("=")[0]))
        run.count("observed=" + cls.split(":")[0] + ("" if cls == "S" else ":" + cls.split(":")[-1]))
        run.count("policy=" + verdict)
        fails = judge(c, o, verdict)
        if fails:
            n_or += 1
            if n_or <= 3:
                run.violation("; ".join(fails)[:700], {"case": describe(c), "implementation": {"status": o["st"], "body": str(o["body"])[:300], "changed": o.get("changed"), "diff": o.get("diff")},
                                                       "policy_verdict": verdict, "contradicts": "C29_matrix_sound / C29_reject_pure in coq/theories/Rbac/Props.v"})
        if pred is not None:
            want = "S" if pred.startswith("S:") else ("D:" + pred.split(":")[2] if pred.startswith("D:") else pred)
            if want != cls:
                n_co += 1
                if n_co <= 3:
                    run.tie_broken("correspondence Rbac/Model.v vs the real route tree on %s" % json.dumps(describe(c))[:500],
                                   "model %s, implementation %s (HTTP %s, body %s)" % (pred, cls, o["st"], str(o["body"])[:200]))
    run.extra["oracle_failures"] = n_or
    run.extra["disagreements"] = n_co


def replay(run, path):
    r = json.load(open(path))["replay"]["case"]
    ok, bindir, lg = harness.build(T.BIN)
    c = mk(r["app"], r["rbac"], r["raft_key"], r["admin_key"], r["rate_limited"], r["endpoint"], r["variant"],
           (r["credential"], r["x-api-key"], r["x-admin-key"]), r["method"], r["path"], r["body"], r.get("query", ""))
    obs = run_impl(os.path.join(bindir, T.BIN), [c])
    cfg = cfg_coq(c, obs[0].get("raft_key_used"))
    verdict = coqtools.coq_eval("C29replay", IMPORTS, ["policy_verdict %s %s %s" % (APP_COQ[c.app], cfg, req_coq(c))])[0]
    run.case(("replay",), describe(c))
    run.case(("replay2",))
    fails = judge(c, obs[0], verdict)
    if fails:
        run.violation("; ".join(fails)[:700], {"case": describe(c), "implementation": obs[0], "policy_verdict": verdict})
