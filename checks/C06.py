"""C06 — ZDD operations implement set-family algebra exactly."""
from checks import zdd_common as Z

META = {
    "technique": "Coq proof (induction on fuel over a hash-consing table model) + model/impl differential with verbatim node-id comparison",
    "design_ref": "DESIGN.md §7 C06",
    "level_text": "Theorems C06_* in coq/theories/Zdd/Props.v: every arena op sequence refines explicit set-of-sets semantics (all lengths, all variables), count/contains/iter agree with the denoted family, standalone union/intersection/difference/product/extend/from_set/singleton denote the specified families and always return; the model is tied to the Rust by a differential run on every check",
    "level_note": "Trusted: Coq kernel + vm_compute; the hand-written model (tied by differential run comparing roots, node counts, node table, iteration order verbatim); FxHashMap index modelled as linear search; the recursive iterator model vs the stack-machine iterators (tied by comparing iteration order); harness + Python driver",
}
CATS = ("algebra", "panic")


def judge(api, ops, ans):
    return [m for c, m in Z.check_against_oracle(api, ops, ans) + (Z.check_count_steps(ops, ans) if api == "arena" else []) if c in CATS]


def cases_for(run):
    rng = run.rng
    cases = []
    # corpus first: the shape the property text names, and earlier minimised disagreements
    cases.append(("arena", [["fromset", [1, 2]], ["fromset", [2]], ["diff", 0, 1]]))
    cases.append(("zdd", [["fromset", [1, 2]], ["fromset", [2]], ["diff", 0, 1]]))
    n = 240 if run.tier == "quick" else 4000
    for i in range(n):
        api = "arena" if i % 2 == 0 else "zdd"
        ops = Z.gen_ops(rng, api, 9 if i % 3 else 14)
        if api == "arena" and i % 3 == 0 and not any(o[0] == "gc" for o in ops):
            # a collection that keeps every handle (in another order) followed by the earlier operations again:
            # results computed before the collection must not leak into the renumbered arena
            nh = sum(1 for o in ops if Z.pushes(o))
            perm = rng.shuffle(list(range(nh)))
            if rng.chance(1, 2) and nh > 2:
                perm = perm[:-1]          # sometimes with garbage, sometimes without
            pos = {h: k for k, h in enumerate(perm)}
            again = []
            for o in ops:
                if o[0] in ("union", "inter", "diff") and o[1] in pos and o[2] in pos:
                    again.append([o[0], pos[o[1]], pos[o[2]]])
                elif o[0] == "pwo" and o[1] in pos:
                    again.append(["pwo", pos[o[1]], o[2]])
                elif o[0] == "count" and o[1] in pos:
                    again.append(["count", pos[o[1]]])
            ops = ops + [["count", h] for h in range(nh) if rng.chance(1, 2)] + [["gc", perm]] + again + [["count", k] for k in range(len(perm))]
        cases.append((api, ops))
    # exhaustive: all pairs of families over 2 variables (16 x 16) x all binary ops, both APIs
    for api in ("arena", "zdd"):
        kinds = ["union", "inter", "diff"] + (["product"] if api == "zdd" else [])
        cases += Z.exhaustive_pairs(2, kinds, api)
    if run.tier == "thorough":
        # pairs of families over 3 variables (256 x 256 = 65536 pairs; each case applies every binary op): a seeded
        # sample sized so that the tier ends within about half an hour (all 65536 x 2 APIs took about three hours)
        for api in ("arena", "zdd"):
            kinds = ["union", "inter", "diff"] + (["product"] if api == "zdd" else [])
            cases += Z.exhaustive_pairs(3, kinds, api, limit=9000 if api == "arena" else 5000, rng=rng)
    return cases


def check(run):
    run.rule = ("op sequences over <=5 variables on ZddArena and standalone Zdd (random, seeded) + all pairs of families over 2 "
                "variables (thorough: plus a seeded sample of 14000 pairs over 3 variables) x every binary op; non-trivial = some handle holds >= 2 sets and the sequence builds >= 4 ops+nodes; "
                "distinct = distinct (api, op list)")
    run.trusted += ["Coq 8.16.1 kernel + vm_compute", "hand-written model coq/theories/Zdd/Model.v tied by differential run (root refs, node counts, node table, iteration order compared verbatim)",
                    "Rust harness harness/crates/zdd, Python driver checks/zdd_common.py (generators, explicit set-of-sets oracle)",
                    "FxHashMap index of UniqueTable modelled as linear search (same function)"]
    run.assumptions += ["u32 variable ids and usize counts do not overflow on the explored sizes (model uses unbounded N)"]
    binpath = Z.build_all(run, ["theories/Zdd/Props.vo"], "C06.v")
    if binpath is None:
        return
    cases = cases_for(run)
    report(run, binpath, cases, judge, "C06")


def report(run, binpath, cases, judge, tag):
    seen_oracle = 0
    seen_corr = 0
    for kind, case, msgs in Z.run_cases(run, binpath, cases, tag, judge):
        if kind == "oracle":
            seen_oracle += 1
            if seen_oracle <= 3:
                def still(c):
                    import os
                    from vplib import harness
                    ans = harness.run_jsonl(binpath, [{"api": c[0], "ops": c[1]}])[0]
                    return bool(judge(c[0], c[1], ans))
                small = Z.shrink(case, still)
                from vplib import harness
                ans = harness.run_jsonl(binpath, [{"api": small[0], "ops": small[1]}])[0]
                run.violation("; ".join(judge(small[0], small[1], ans))[:600],
                              {"api": small[0], "ops": small[1], "implementation": ans, "explicit_sets": [sorted(map(sorted, f)) for f in Z.oracle(*small)],
                               "contradicts": "theorems in coq/theories/Zdd/Props.v (set algebra of every op)"})
        else:
            seen_corr += 1
            if seen_corr <= 3:
                run.tie_broken("correspondence Zdd/Model.v vs crates/varpulis-zdd on %s %s" % case, msgs[0])
    run.extra["oracle_failures"] = seen_oracle


def replay(run, path):
    import json
    from vplib import harness
    r = json.load(open(path))["replay"]
    ok, bindir, lg = harness.build("vp-zdd")
    import os
    ans = harness.run_jsonl(os.path.join(bindir, "vp-zdd"), [{"api": r["api"], "ops": r["ops"]}])[0]
    fails = judge(r["api"], r["ops"], ans)
    run.case(("replay",), {"api": r["api"], "ops": r["ops"]})
    run.case(("replay2",))
    if fails:
        run.violation("; ".join(fails)[:600], {"api": r["api"], "ops": r["ops"], "implementation": ans})
