"""C14 — aggregates equal their mathematical definitions on every execution path."""
import json
import os

from checks import agg_common as A
from vplib import coqtools, harness

# vplib's header sets Printing Depth to 10^7, which makes Coq's printer ~4x slower on string results; strings are single
# tokens, so the default depth prints them unchanged (checked: identical output)
FAST_PRINT = "Set Printing Depth 50.\n"

META = {
    "technique": "Coq proof over exact rationals (lane/chunk structure, Welford and EMA recurrences, three paths) + model/impl differential with a stated rounding tolerance + exact Fraction oracle",
    "design_ref": "DESIGN.md §7 C14",
    "level_text": "Theorems C14_* in coq/theories/Agg/Props.v: for every batch, field and path (row / shared / columnar) and both SIMD variants the model of Sum equals the sum of the non-NaN numeric values, Avg the mean, Min/Max the least/greatest element (Null when empty), StdDev Welford's m2/(n-1) equals the sample variance, Ema its closed form, First/Last/Count/CountDistinct their definitions, and the three paths return equal results for every aggregate including ExprAggregate; the model is tied to the Rust by a differential run on every check",
    "level_note": "Model is over exact rationals: IEEE rounding is NOT modelled or proved (implementation compared within a stated textbook tolerance: sum/avg 2n*u*sum|x|, variance by the Chan-Golub-LeVeque bound, ema 8(n+1)u*max|x|; min/max/first/last/count/count_distinct exactly). Square root not modelled (squares compared; ExprAggregate over a stddev operand is judged by the Python oracle only). Infinities, i64 overflow inside ExprAggregate and ints beyond 2^53 are outside the model. DefaultHasher collisions in count_distinct not modelled. Only the SIMD variant selected by the CPU (AVX2 here) is reachable by the differential run; the scalar variant is modelled and proved but not exercised. The ColumnarBuffer column cache is modelled as recomputation (tied by warm-cache and push-invalidated runs).",
}


def cases_for(run):
    rng = run.rng
    cases = A.fixed_cases()
    n = 200 if run.tier == "quick" else 6000
    for i in range(n):
        cases.append(A.gen_case(rng))
    # every length 0..64 once with a plain float column (lane split at every remainder)
    for ln in range(0, 65):
        cases.append(A.gen_case(rng, ln))
    return cases


def run_impl(binpath, cases):
    return harness.run_jsonl(binpath, [A.j_case(c["events"], c["aggs"]) for c in cases])


def check(run):
    run.rule = ("event batches of 0..64 events (lengths around multiples of 4 + every length once), three fields with independent value mixes "
                "(float styles: small ints, decimals, wide exponents, cancelling big values, near-equal values, signed zeros; ints to 2^53; NaN payloads; strings, bools, "
                "nulls, missing), ~27 aggregates per batch (all ten functions on two fields, Ema periods 0..12 incl. raw period 0, random ExprAggregates, nested); "
                "non-trivial = batch with >= 5 numeric values and >= 1 non-numeric/NaN/missing value in a used field; distinct = distinct (events, aggregates)")
    run.trusted += ["Coq 8.16.1 kernel + vm_compute",
                    "hand-written model coq/theories/Agg/Model.v over exact rationals, tied by differential run within the tolerance stated in checks/agg_common.py (expected())",
                    "IEEE-754 rounding error bounds (textbook, not proved); f64 sqrt (squares compared)",
                    "Rust harness harness/crates/agg, Python driver checks/agg_common.py (generators, exact Fraction oracle)",
                    "std DefaultHasher collision-freedom on the generated scalar values (count_distinct)"]
    run.assumptions += ["no infinities and no i64 overflow in the generated batches; |Int| <= 2^53 so Int -> f64 is exact",
                        "the differential run exercises the SIMD variant the CPU selects (is_x86_feature_detected!(\"avx2\"))"]
    binpath = A.build_all(run, ["theories/Agg/Props.vo", "theories/Agg/Run.vo"], "C14.v")
    if binpath is None:
        return
    cases = cases_for(run)
    answers = run_impl(binpath, cases)
    avx = bool(answers[0].get("avx2", True)) if answers else True
    run.extra["simd_variant"] = "avx2" if avx else "scalar"
    try:
        model = coqtools.coq_eval("C14", A.IMPORTS, [A.g_case(avx, c["events"], c["aggs"], k) for k, c in enumerate(cases)], shard=max(8, len(cases) // 16 + 1), prelude=FAST_PRINT)
    except RuntimeError as e:
        run.tie_broken("model evaluation (coqc cases)", str(e))
        model = [None] * len(cases)
    worst = 0.0
    skipped = 0
    n_oracle = 0
    n_corr = 0
    for k, (c, ans, ms) in enumerate(zip(cases, answers, model)):
        used = {A.spec_field(a) or "value" for a in c["aggs"] if a[0] != "expr"}
        nontrivial = None
        for f in used:
            vs = A.field_values(c["events"], f)
            nnum = sum(1 for v in vs if v[0] in ("int", "float"))
            if nnum >= 5 and nnum < len(vs):
                nontrivial = json.dumps(A.case_json(c), sort_keys=True)
        run.case(nontrivial, sample={"events": len(c["events"]), "first_event": [[f, list(v)] for f, v in c["events"][0]] if c["events"] else [],
                                     "aggs": [A.spec_name(a) for a in c["aggs"]][:6], "row": ans.get("row", [])[:6]} if k in (20, 40) else None)
        run.count("len=%d" % len(c["events"]))
        run.count("len%%4=%d" % (len(c["events"]) % 4))
        for f, p in c["profile"].items():
            run.count("profile=" + p)
        for a in c["aggs"]:
            run.count("agg=" + a[0])
        fails, w, sk = A.judge_case(c, ans)
        worst = max(worst, w)
        skipped += sk
        if fails:
            n_oracle += 1
            run.count("oracle_fail")
            if n_oracle <= 3:
                def still(cc):
                    a2 = run_impl(binpath, [cc])[0]
                    return bool(A.judge_case(cc, a2)[0])
                small = A.shrink(c, still)
                a2 = run_impl(binpath, [small])[0]
                f2 = A.judge_case(small, a2)[0]
                run.violation("; ".join(m for _, m in f2)[:700],
                              {"case": A.case_json(small), "implementation": a2,
                               "expected": [[A.spec_name(s), A.show(A.expected(s, small["events"]))] for s in small["aggs"]],
                               "contradicts": "theorems C14_* in coq/theories/Agg/Props.v (mathematical definition of each aggregate; path agreement)"})
        if ms is not None:
            msgs = A.compare_model(c, ans, ms, k)
            if msgs:
                n_corr += 1
                if n_corr <= 3:
                    run.tie_broken("correspondence Agg/Model.v vs crates/varpulis-runtime aggregation on batch of %d events" % len(c["events"]), "\n".join(msgs[:5]))
    run.extra["oracle_failures"] = n_oracle
    run.extra["disagreements"] = n_corr
    run.extra["worst_error_over_tolerance"] = round(worst, 4)
    run.extra["aggregates_not_judged_ill_conditioned"] = skipped


def replay(run, path):
    r = json.load(open(path))["replay"]
    ok, bindir, lg = harness.build("vp-agg")
    case = A.case_from_json(r["case"])
    ans = harness.run_jsonl(os.path.join(bindir, "vp-agg"), [A.j_case(case["events"], case["aggs"])])[0]
    fails = A.judge_case(case, ans)[0]
    run.case(("replay",), {"case": r["case"]})
    run.case(("replay2",))
    if fails:
        run.violation("; ".join(m for _, m in fails)[:700], {"case": r["case"], "implementation": ans})
