"""C37 — coordinators agree on cluster state and never lose acknowledged writes (PARTIAL by design)."""
import json
import os

from checks import raft_common as R
from checks.C36 import run_parallel
from vplib import harness

META = {
    "technique": "Coq proof of the part that is ours (equal applied position => equal replicated state machine on both stores and across "
                 "crash/restart; an acknowledged command stays folded into every later state), with Raft's safety as an explicit hypothesis; "
                 "+ exploration of in-process 3-node clusters (real openraft, real stores and state machine, in-memory network with drops, "
                 "partitions, restarts)",
    "design_ref": "DESIGN.md §7 C37",
    "level_text": "proof (partial)",
    "level_note": "PARTIAL BY DESIGN. Proved (Raft/Props.v C37_*_partial): IF every coordinator's storage calls conform to one committed log G "
                  "(openraft's log matching / leader completeness / state-machine safety; hypothesis wf_hist) THEN coordinators at the same applied "
                  "position have the same state machine (RocksStore, after crashes at any write, and in-memory vs persistent), and entry i of G "
                  "is folded into every state at a position > i. NOT proved: Raft itself; no TLA+ model was built. The cluster runs are "
                  "validation by exploration (bounded, timing dependent, seeded network faults only), not proof. Known finding: an in-memory "
                  "coordinator forgets vote and log on restart (class mem-store-restart).",
}

NAMES = {}        # canonical serde json of a generated command -> abstract command


def gen_write(rng):
    c = R.gen_command(rng)
    s = R.cmd_serde(c)
    NAMES[json.dumps(s, sort_keys=True)] = c
    return ["write", s]


def gen_scenario(rng, store, restarts, nsteps):
    steps = [gen_write(rng), gen_write(rng)]
    healed = True
    while len(steps) < nsteps:
        k = rng.below(12)
        if k <= 5:
            steps.append(gen_write(rng))
        elif k == 6:
            iso = rng.range(1, 3)
            steps.append(["partition", [[iso], [i for i in (1, 2, 3) if i != iso]]])
            healed = False
        elif k == 7:
            steps.append(["drop", rng.choice([100, 250, 400])])
            healed = False
        elif k == 8 and not healed:
            steps.append(["heal"])
            healed = True
        elif k == 9 and restarts:
            steps.append(["restart", rng.range(1, 3)])
        elif k == 10:
            steps.append(["snapshot", rng.range(1, 3)])
        elif k == 11:
            steps.append(["sleep", rng.choice([200, 800])])
    if restarts and not any(s[0] == "restart" for s in steps):
        steps.insert(rng.range(3, len(steps) - 1), ["restart", rng.range(1, 3)])      # after some writes, followed by more steps
        steps.append(gen_write(rng))
    return steps


def witness_mem_restart(rng):
    """the known finding: node 2 acknowledges, restarts empty while the old leader is cut off, and elects node 3 which never saw the writes"""
    return [gen_write(rng), ["partition", [[1, 2], [3]]], gen_write(rng), gen_write(rng),
            ["partition", [[1], [2, 3]]], ["restart", 2], ["sleep", 2500], gen_write(rng), gen_write(rng), ["heal"], ["sleep", 1500], gen_write(rng)]


def abstract_entry(e):
    p = e["p"]
    if p[0] == "blank":
        pl = ("b",)
    elif p[0] == "mem":
        pl = ("m", p[1])
    else:
        c = NAMES.get(json.dumps(p[1], sort_keys=True))
        if c is None:
            return None
        pl = ("c", c)
    return (tuple(e["id"]), pl)


def judge(ans):
    """agreement + no acknowledged write lost, on the implementation's own observations"""
    if "panic" in ans:
        return ["implementation panicked: " + ans["panic"][:300]]
    f = []
    # every coordinator that applied up to a position has the same state there (all samples of all nodes at all times)
    at = {}
    for s in ans["samples"]:
        if s["applied"] is None:
            continue
        key = s["applied"][2]
        val = (tuple(s["applied"]), s["digest"], json.dumps(s["mem"]))
        if key in at and at[key][0] != val:
            f.append("coordinators %d and %d differ at applied index %d: %s vs %s" % (at[key][1], s["node"], key, at[key][0], val))
            break
        at.setdefault(key, (val, s["node"]))
    for c in ans["seen_conflicts"][:1]:
        f.append("two coordinators applied different entries at index %d: %s vs %s" % (c["index"], json.dumps(c["a"])[:200], json.dumps(c["b"])[:200]))
    seen = {e["id"][2]: e for e in ans["seen"]}
    for a in ans["acks"]:
        i = a["id"][2]
        e = seen.get(i)
        if e is not None and (e["id"] != a["id"] or e["p"] != ["cmd", a["cmd"]]):
            f.append("acknowledged write %s (via node %s) is not in the replicated log any more: index %d holds %s" % (
                json.dumps(a["cmd"])[:200], a.get("via"), i, json.dumps(e)[:200]))
            break
        for n in ans["final"]:
            for le in n["log"]:
                if le["id"][2] == i and (le["id"] != a["id"] or le["p"] != ["cmd", a["cmd"]]):
                    f.append("acknowledged write at %s was replaced on node %d by %s" % (a["id"], n["node"], json.dumps(le)[:200]))
    if ans.get("converged"):
        want = max([a["id"][2] for a in ans["acks"]], default=-1)
        for n in ans["final"]:
            if (n["applied"] or [0, 0, -1])[2] < want:
                f.append("node %d ends at %s, below the acknowledged index %d" % (n["node"], n["applied"], want))
    for n in ans["final"]:
        if n["expected_state"] is not None and R.s_state(n["expected_state"]) != R.s_state(n["state"]):
            f.append("node %d: state is not the fold of the committed entries up to %s" % (n["node"], n["applied"]))
    return f[:3]


def check(run):
    run.rule = ("3-node in-process clusters (real openraft 0.9.21 + MemStore / RocksStore + apply_command; RPCs through the JSON wire format) "
                "running seeded scenarios of 8-14 steps: client writes over all command kinds, isolating partitions, 10-40% message loss, "
                "heal, coordinator restarts, snapshot triggers (RocksStore also with aggressive purge so that lagging nodes get snapshots); "
                "every node sampled after every step. non-trivial = scenario with a fault step and >= 3 acknowledged writes; "
                "distinct = distinct (store, purge, steps)")
    run.trusted += ["Coq 8.16.1 kernel", "HYPOTHESIS (not proved, named in Raft/Props.v): openraft's safety — every node's storage calls conform (wf_hist) "
                    "to one committed log, an acknowledged write is an entry of it",
                    "exploration harness harness/crates/raft/src/cluster.rs (in-memory network replacing raft/network.rs HTTP; storage spy "
                    "refreshed inside every mutating storage call), Python driver checks/C37.py",
                    "hand-written model Raft/Model.v tied here by comparing each node's final state machine with sm_apply of the committed entries"]
    run.assumptions += ["exploration is bounded and timing dependent: it can miss schedules; liveness failures (writes not acknowledged, "
                        "no convergence within the wait) are counted, not judged",
                        "bootstrap_with_storage's production timeouts (500/1500/3000 ms) are replaced by 150/900/1800 ms"]
    binpath = R.build_all(run, "C37.v", translator=False)
    if binpath is None:
        return
    rng = run.rng
    scen = [("mem", False, witness_mem_restart(rng), True)]
    n = 5 if run.tier == "quick" else 17
    for i in range(n):
        store = "rocks" if i % 5 in (0, 1, 3) else "mem"
        restarts = store == "rocks" or i % 10 == 9
        scen.append((store, store == "rocks" and i % 2 == 1, gen_scenario(rng, store, restarts, 8 + i % 7), False))
    reqs = [{"mode": "cluster", "store": st, "seed": 1000 + i, "purge": purge, "steps": steps} for i, (st, purge, steps, _) in enumerate(scen)]
    answers = run_parallel(binpath, reqs, nproc=6, chunk=1)          # one cluster scenario per process
    exprs, where = [], []
    n_fail = 0
    for i, ((st, purge, steps, is_witness), ans) in enumerate(zip(scen, answers)):
        has_restart = any(s[0] == "restart" for s in steps)
        faults = any(s[0] in ("partition", "drop", "restart") for s in steps)
        nacks = len(ans.get("acks", []))
        run.case((st, purge, json.dumps(steps)) if faults and nacks >= 3 else None,
                 sample={"store": st, "purge": purge, "steps": [s if s[0] != "write" else ["write", "..."] for s in steps]} if i < 2 else None)
        run.count("store=" + st + ("/purge" if purge else ""))
        for s in steps:
            run.count("step=" + s[0])
        run.count("acked_writes", nacks)
        run.count("failed_writes", ans.get("failed_writes", 0))
        run.count("converged" if ans.get("converged") else "not_converged")
        fails = judge(ans)
        classes = ["mem-store-restart"] if st == "mem" and has_restart else []
        if fails:
            n_fail += 1
            run.count("oracle_fail")
            run.violation("; ".join(fails)[:700], {"store": st, "purge": purge, "seed": 1000 + i, "steps": steps,
                                                   "contradicts": "C37 (agreement / acknowledged writes); Raft/Props.v C37_*_partial hypotheses"},
                          classes=classes)
        elif is_witness:
            run.count("known_finding_not_reproduced_this_run")
        if "final" in ans and not fails:
            seen = {e["id"][2]: e for e in ans["seen"]}
            for nfin in ans["final"]:
                if nfin["applied"] is None:
                    continue
                top = nfin["applied"][2]
                es = [abstract_entry(seen[j]) if j in seen else None for j in range(top + 1)]
                if any(e is None for e in es):
                    run.count("final_without_complete_log")
                    continue
                exprs.append("sm_case %s" % R.g_entries(es))
                where.append((i, nfin))
    model = R.model_eval(run, "C37", exprs)
    n_corr = 0
    for (i, nfin), sm in zip(where, model):
        if sm is None:
            continue
        si = "A%s|M%s|T%s" % (R.s_logid(nfin["applied"]), R.s_smember(nfin["mem"]), R.s_state(nfin["state"]))
        run.count("model_compared")
        if si != sm:
            n_corr += 1
            if n_corr <= 2:
                run.tie_broken("node state vs Raft/Model.v sm_apply of the committed entries (scenario %d node %d)" % (i, nfin["node"]),
                               "impl  %s\nmodel %s" % (si[:1200], sm[:1200]))
    run.extra["oracle_failures"] = n_fail
    run.extra["disagreements"] = n_corr
    run.extra["scenarios"] = len(scen)


def replay(run, path):
    r = json.load(open(path))["replay"]
    ok, bindir, lg = harness.build("vp-raft")
    binpath = os.path.join(bindir, "vp-raft")
    ans = harness.run_jsonl(binpath, [{"mode": "cluster", "store": r["store"], "seed": r["seed"], "purge": r["purge"], "steps": r["steps"]}], (), 1500)[0]
    run.case(("replay",), {"store": r["store"], "steps": len(r["steps"])})
    fails = judge(ans)
    has_restart = any(s[0] == "restart" for s in r["steps"])
    if fails:
        run.violation("; ".join(fails)[:700], r, classes=["mem-store-restart"] if r["store"] == "mem" and has_restart else [])
