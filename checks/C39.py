"""C39 — injected connector declarations carry exactly the stored parameters."""
import json
import os

from checks import text_common as T
from vplib import coqtools, harness

META = {
    "technique": "Coq proof (render/parse round trip over a model of the declaration grammar fragment; textual identity of the rest of the source) "
                 "+ model/impl differential on generated connectors and pipeline sources + AST oracle on the real parser",
    "design_ref": "DESIGN.md §7 C39",
    "level_text": "Coq theorems: render/parse round trip of every validated connector declaration and textual identity of the rest of the source, about an executable model tied to connector_config.rs and the VPL parser by a differential run on every check",
    "level_note": "Proved for the model Text/Connector.v: every connector accepted by validate renders to a declaration that the modelled grammar "
                  "fragment parses back to the same name, type and parameter strings (for every parameter order), and injection leaves the source "
                  "text unchanged after the prepended declaration lines when no connector uses client_id_mode=append_pipeline. Modelled, tied by the "
                  "differential run: validate_connector, to_vpl_declaration, find_missing_connectors, inject_connectors, append_pipeline_client_ids, "
                  "and the pest grammar fragment (identifier, connector_type, config_value without arrays, string/integer/float/duration/boolean "
                  "lexing). Not modelled (tested by the oracle on the real parser): that declarations prepended to a program parse to those "
                  "declarations followed by the original statements; HashMap iteration order is an input of the model.",
}
IMPORTS = ("From Coq Require Import String.\nFrom VP Require Import Base.Tactics Base.Render Text.Str Text.Connector Text.ConnectorRun.\n"
           "Open Scope string_scope.\nOpen Scope N_scope.\n")

NAMES = ["m", "mqtt_in", "kafka_out", "_private", "c1", "true", "from", "M2", "k", "connector", "stream", "mqtt", "x_9"]
BAD_NAMES = ["1bad", "a-b", "", "é", "a b", "m.x"]
TYPES = ["mqtt", "kafka", "nats", "http", "console"]
REQUIRED = {"mqtt": "host", "kafka": "brokers", "http": "url", "nats": "servers", "console": None}
KEYS = ["port", "client_id", "topic", "qos", "password", "user_name", "_x", "in", "true", "type", "k2", "from", "tls", "Group"]
BAD_KEYS = ["client-id", "a b", "", "1k", "é", "a.b", "k:"]
GOOD_VALUES = [
    "localhost", "tcp://h:1883", "b1:9092,b2:9092", "a b", "", " ", "  x ",
    "0", "7", "1883", "9223372036854775807", "9223372036854775808", "007", "00", "-5", "+5", "-0", "1_000", "\u0661\u0662",
    "99999999999999999999999", "0x10", "1883 ", " 1883",
    "1.5", "1.50", "0.5", "1e5", "1E5", ".5", "5.", "1.0", "1e400", "1.5e-3", "0.1",
    "inf", "nan", "NaN", "-inf", "+inf", "infinity", "Infinity", "-nan",
    "true", "false", "null", "True", "5s", "10ms", "3m", "2h", "5x",
    "\\\"", "a\\\"b", "a\\b", "a\\\\", "\\\\", "C:\\dir\\new", "\\\\srv\\share", "a\\\"\\\\", "x\\\", y: \\\"1",
    "\u00e9", "\u65e5\u672c", "\U0001f600", "#x", "a # b", "/* c */", "// x", ", y: 1", ")", "(", "[1]", "[", "{i}", "\u00abINDENT\u00bb", "'", "a'b",
    "a\tb", "for i in 0..3:", "connector z = mqtt(", ".from(k, x)",
]
BAD_VALUES = ["a\"b", "\"", "\"\"", "a\\", "\\", "\\\\\\", "a\\\\\"", "x\", evil: \"1", "a\nb", "a\r\nb", "\n", "a\rb", "\\\n"]
VALUES = GOOD_VALUES + BAD_VALUES
ATOMS = ["a", "Z", "0", "7", " ", ".", "-", "+", "e", "\"", "\\", "\\\\", "\\\"", "#", "/", ":", ",", "(", ")", "é", "\n", "\t", "_", "s", "m"]


def gen_value(rng):
    """mostly values validation accepts (every kind the property names), sometimes unwritable ones, sometimes random atoms"""
    k = rng.below(16)
    if k == 0:
        return rng.choice(BAD_VALUES)
    if k <= 2:
        return "".join(rng.choice(ATOMS) for _ in range(rng.below(7)))
    return rng.choice(GOOD_VALUES)


def gen_connector(rng, name, append=False):
    ty = rng.choice(TYPES) if rng.chance(14, 15) else rng.choice(["redis", "", "Mqtt", "amqp", "file"])
    params = {}
    req = REQUIRED.get(ty)
    if req and rng.chance(14, 15):
        params[req] = gen_value(rng) if rng.chance(1, 2) else rng.choice(["localhost", "h", "10.0.0.1", "1883"])
    for _ in range(rng.below(4)):
        k = rng.choice(KEYS) if rng.chance(19, 20) else rng.choice(BAD_KEYS)
        params[k] = gen_value(rng)
    if append:
        params["client_id_mode"] = "append_pipeline"
        if rng.chance(2, 3):
            params["client_id"] = rng.choice(["base", "cid", "my id", "007", ""])
    elif rng.chance(1, 12):
        params["client_id_mode"] = rng.choice(["static", "append", ""])
    return {"name": name, "type": ty, "params": [[k, v] for k, v in params.items()]}


def gen_source(rng, names):
    """a small VPL program referring to some of the names; mostly parseable"""
    def nm():
        return rng.choice(names) if names and rng.chance(5, 6) else rng.choice(NAMES + ["zzz", "9x"])
    eol = "\r\n" if rng.chance(1, 8) else "\n"
    out = []
    n = rng.range(1, 4)
    if rng.chance(1, 6):
        out.append("# pipelines using .from(%s, x: 1) and .to(%s)" % (nm(), nm()))
    if rng.chance(1, 5):
        out.append("event E:" + eol + "    x: int" + eol + "    y: str")
    if rng.chance(1, 5):
        out.append("")
    if rng.chance(1, 5):
        c = nm()
        sp = rng.choice([" ", " ", "  "])
        out.append("connector%s%s %s mqtt(host: \"inline\", port: 1)" % (sp, c, rng.choice(["=", "=", " ="])))
    for i in range(n):
        sname = rng.choice(["S", "T", "Out", "s_%d" % i, "Alerts"]) + ("" if i == 0 else str(i))
        k = rng.below(10)
        if k < 5:
            params = rng.choice(["", ", topic: \"t\"", ", topic: \"a/b\", qos: 1", ", client_id: \"own\""])
            line = "stream %s = E.from(%s%s)" % (sname, nm(), params)
        elif k < 6:
            line = "stream %s = E" % sname
        elif k < 7:
            line = "stream  %s  =  E.from(%s, topic: \"t\")" % (sname, nm())
        else:
            line = "stream %s = E.from(%s, topic: \"in\").where(x > %d)" % (sname, nm(), rng.below(9))
        ops = []
        for _ in range(rng.below(3)):
            j = rng.below(6)
            if j == 0:
                ops.append("    .where(x > %d)" % rng.below(100))
            elif j == 1:
                ops.append("    .emit(a: x, s: \".to(%s, 1)\")" % nm())
            elif j == 2:
                ops.append("    .to(%s, topic: \"out\")" % nm())
            elif j == 3:
                ops.append("    .to(%s)" % nm())
            elif j == 4:
                ops.append("    .select(z: x + 1)")
            else:
                ops.append("    # note: .to(%s, q: 2)" % nm())
        if rng.chance(1, 6):
            line += ".to(%s, topic: \"same-line\")" % nm()
        out.append(eol.join([line] + ops))
    if rng.chance(1, 10):
        out.append(rng.choice(["stream = broken", "    .where(", "stream S2 = E.from(", "connector = x", "for i in 0..2:" + eol + "    stream L{i} = E.from(%s, topic: \"t{i}\")" % nm()]))
    src = eol.join(out)
    if rng.chance(4, 5):
        src += eol
    return src


def gen_case(rng):
    k = rng.choice([0, 1, 1, 1, 2, 2, 2, 3])
    names = rng.shuffle(NAMES)[:k]
    if rng.chance(1, 20) and names:
        names[0] = rng.choice(BAD_NAMES)
    append_ix = rng.below(len(names)) if names and rng.chance(1, 5) else None
    conns = [gen_connector(rng, n, append=(i == append_ix)) for i, n in enumerate(names)]
    return {"kind": "connector", "connectors": conns, "source": gen_source(rng, [n for n in names if n not in BAD_NAMES])}


def single(value, key="client_id", source='stream S = E.from(m, topic: "t")\n'):
    return {"kind": "connector", "connectors": [{"name": "m", "type": "mqtt", "params": [["host", "h"], [key, value]]}], "source": source}


CORPUS = [single(v) for v in ["007", "1.50", "1e5", "inf", "-5", "9223372036854775808", "a\"b", "a\\", "a\\\\", "a\\\"b", "", "x\", evil: \"1", "a\nb", "1883"]] + [
    single("x", key="client-id"),
    {"kind": "connector", "connectors": [{"name": "_private", "type": "mqtt", "params": [["host", "h"]]}], "source": 'stream S = E.from(_private, topic: "t")\n'},
    {"kind": "connector", "connectors": [{"name": "m", "type": "mqtt", "params": [["host", "h"], ["client_id", "base"], ["client_id_mode", "append_pipeline"]]},
                                          {"name": "k", "type": "kafka", "params": [["brokers", "b:9092"]]}],
     "source": 'stream S = E.from(m, topic: "t")\n    .where(x > 1)\n    .to(k, topic: "o")\nstream T = S.to(m, topic: "x")'},
]


# ---------------------------------------------------------------- oracle
def strip_client_id(ast, cn):
    if isinstance(ast, dict):
        if ast.get("connector_name") == cn and isinstance(ast.get("params"), list):
            ast = dict(ast)
            ast["params"] = [p for p in ast["params"] if p.get("name") != "client_id"]
        return {k: strip_client_id(v, cn) for k, v in ast.items()}
    if isinstance(ast, list):
        return [strip_client_id(x, cn) for x in ast]
    return ast


def referenced_names(ast, acc):
    if isinstance(ast, dict):
        if "connector_name" in ast and isinstance(ast["connector_name"], str):
            acc.add(ast["connector_name"])
        for v in ast.values():
            referenced_names(v, acc)
    elif isinstance(ast, list):
        for x in ast:
            referenced_names(x, acc)
    return acc


def judge(req, ans):
    """The property on the implementation. Returns a failure description or None."""
    stored = {c["name"]: c for c in req["connectors"]}
    valid = {c["name"]: v for c, v in zip(req["connectors"], ans["valid"])}
    orig, parsed = ans["orig"], ans["parsed"]
    if "ok" not in orig:
        return None                                   # the pipeline itself does not parse: nothing to preserve
    injected = [n for n in ans["missing"] if n in stored]
    if any(not valid[n] for n in stored):
        return None                                   # the store can only hold validated connectors (check() filters them out beforehand)
    if "ok" not in parsed:
        if injected:
            return "injected source does not parse (%s); injected declarations: %s" % (parsed["err"][:120], [d for c, d in zip(req["connectors"], ans["decls"]) if c["name"] in injected])
        return "source parses but the injection result does not (%s)" % parsed["err"][:120]
    odecls = [json.dumps(d, sort_keys=True) for d in orig["ok"]["decls"]]
    new = list(parsed["ok"]["decls"])
    for d in odecls:
        for i, x in enumerate(new):
            if json.dumps(x, sort_keys=True) == d:
                del new[i]
                break
        else:
            return "a connector declaration of the original source is missing after injection"
    # every injected declaration carries exactly the stored parameters
    for d in new:
        c = stored.get(d["name"])
        if c is None:
            return "declaration of unknown connector %r injected" % d["name"]
        if d["type"] != c["type"]:
            return "connector %s declared with type %r, stored %r" % (d["name"], d["type"], c["type"])
        got = [(k, v) for k, _tag, v in d["params"]]
        want = dict((k, v) for k, v in c["params"])
        if len(got) != len(set(k for k, _ in got)) or dict(got) != want:
            diff = sorted((k, dict(got).get(k), want.get(k)) for k in set(dict(got)) | set(want) if dict(got).get(k) != want.get(k))
            return "connector %s declared with parameters differing from the stored ones (name, declared, stored): %s" % (d["name"], diff[:4])
    if len(new) != len(set(d["name"] for d in new)):
        return "a connector is declared twice by injection"
    # referenced, stored, not declared inline => declared after injection
    declared_inline = set(d["name"] for d in orig["ok"]["decls"])
    need = referenced_names(orig["ok"]["rest"], set()) & set(stored) - declared_inline
    missing = need - set(d["name"] for d in new)
    if missing:
        return "stored connector(s) %s referenced by the pipeline are not declared after injection" % sorted(missing)
    # the rest of the pipeline keeps its meaning
    a, b = orig["ok"]["rest"], parsed["ok"]["rest"]
    for c in req["connectors"]:
        if dict(c["params"]).get("client_id_mode") == "append_pipeline":
            a, b = strip_client_id(a, c["name"]), strip_client_id(b, c["name"])
    if a != b:
        return "the pipeline's own statements parse differently after injection"
    return None


# ---------------------------------------------------------------- model side
def g_conn(c, order):
    ps = dict(c["params"])
    return "mk %s %s [%s]" % (T.g_cps(c["name"]), T.g_cps(c["type"]), "; ".join("(%s, %s)" % (T.g_cps(k), T.g_cps(ps[k])) for k in order))


def model_expr(req, ans):
    byname = {c["name"]: (c, o) for c, o in zip(req["connectors"], ans["param_order"])}
    cs = [g_conn(*byname[n]) for n in ans["conn_order"]]
    return "conn_case %s [%s]" % (T.g_cps(req["source"]), "; ".join(cs))


def impl_string(req, ans):
    """same format as ConnectorRun.conn_case, from the implementation's answer (connectors in conn_order)"""
    ix = {c["name"]: i for i, c in enumerate(req["connectors"])}
    order = [ix[n] for n in ans["conn_order"]]
    cp = lambda s: ".".join(str(ord(ch)) for ch in s)
    P = []
    for i in order:
        dp = ans["decl_parsed"][i]
        if not ans["valid"][i]:
            P.append(None)                           # compared for validated connectors only
        elif "ok" not in dp or len(dp["ok"]["decls"]) != 1 or dp["ok"]["rest"]:
            P.append("ERR")
        else:
            d = dp["ok"]["decls"][0]
            P.append(cp(d["name"]) + "~" + cp(d["type"]) + "~" + ",".join("%s=%s=%s" % (cp(k), tag, cp(v) if v is not None else "?") for k, tag, v in d["params"]))
    return ("V=" + "".join("1" if ans["valid"][i] else "0" for i in order)
            + "|D=" + "/".join(cp(ans["decls"][i]) for i in order)
            + "|M=" + "/".join(cp(m) for m in ans["missing"])
            + "|N=%d" % ans["nlines"]
            + "|I=" + cp(ans["injected"])), P


def check(run):
    run.rule = ("0-3 stored connectors (names incl. keyword-like and underscore names; parameter values from a pool of plain, numeric-looking, leading-zero, "
                "signed, float, inf/nan, boolean/duration-looking, quote, backslash, unicode, comment-like, line-break and random-atom strings; rare invalid "
                "names/types/keys) x generated pipeline sources (from/to references on stream and continuation lines, in comments and strings, inline "
                "declarations, CRLF, unparseable tails); non-trivial = at least one declaration injected into a source that parses; distinct = distinct request")
    run.trusted += ["Coq 8.16.1 kernel + vm_compute",
                    "hand-written model coq/theories/Text/Connector.v (+ Text/Str.v) tied by differential run: validation verdicts, declaration text, "
                    "missing list, injected text, line count, and pest parse of each validated connector's declaration vs the modelled grammar fragment",
                    "pest-generated parser and the program-level grammar (statement*) are not modelled: prepending declaration lines to a program is judged on the real parser's ASTs",
                    "runtime reading of a declared parameter (sink_factory::connector_params_to_config) mirrored in harness/crates/text config_value_str",
                    "HashMap iteration order is taken from the implementation run and fed to the model",
                    "Rust harness harness/crates/text, Python driver checks/C39.py (generators, AST oracle)"]
    run.assumptions += ["connector store keys equal the connectors' names (Coordinator::update_connector can violate this; outside the anchored file)",
                        "at most one stored connector uses client_id_mode=append_pipeline per generated case (rewrites of several such connectors are order dependent only for base ids containing '.from(<name>,')"]
    binpath = T.build_all(run, ["theories/Text/ConnectorProps.vo", "theories/Text/ConnectorRun.vo"], "C39.v")
    if binpath is None:
        return
    rng = run.rng
    cases = list(CORPUS)
    n = 600 if run.tier == "quick" else 6000
    for _ in range(n):
        cases.append(gen_case(rng))
    # every pool value once, alone, so that each reaches the parser in isolation
    for v in VALUES:
        cases.append(single(v, key=rng.choice(["client_id", "password", "topic"])))
    # phase A: validation verdicts and declaration text for everything generated
    answers_a = harness.run_jsonl(binpath, cases)
    for req, ans in zip(cases, answers_a):
        for c, v in zip(req["connectors"], ans["valid"]):
            run.count("connector=" + ("valid" if v else "rejected"))
    # phase B: the store holds validated connectors only
    stores = [{**req, "connectors": [c for c, v in zip(req["connectors"], ans["valid"]) if v]} for req, ans in zip(cases, answers_a)]
    answers = harness.run_jsonl(binpath, stores)
    nviol = 0
    for req, ans in zip(stores, answers):
        injected = [n for n in ans["missing"] if n in {c["name"] for c in req["connectors"]}]
        nontrivial = json.dumps(req, sort_keys=True) if injected and "ok" in ans["orig"] else None
        run.case(nontrivial, sample={"request": req, "injected": ans["injected"][:300]} if nontrivial and len(run.samples) < 3 else None)
        count(run, req, ans, injected)
        why = judge(req, ans)
        if why:
            run.count("oracle_fail")
            nviol += 1
            if nviol <= 4:
                small = shrink(binpath, req)
                a = harness.run_jsonl(binpath, [small])[0]
                run.violation(judge(small, a), {"request": small, "implementation": {k: a[k] for k in ("valid", "decls", "missing", "injected", "parsed")},
                                                "contradicts": "C39_roundtrip / C39_injected_declarations / C39_rest_unchanged (coq/theories/Text/ConnectorProps.v)"})
    run.extra["oracle_failures"] = nviol
    # correspondence (phase A: verdicts + declaration text + parse of validated declarations; phase B: everything)
    try:
        model = coqtools.coq_eval("C39", IMPORTS, [model_expr(r, a) for r, a in zip(cases + stores, answers_a + answers)],
                                  shard=max(10, (2 * len(cases)) // 16 + 1))
    except RuntimeError as e:
        run.tie_broken("model evaluation (coqc cases)", str(e))
        return
    ndis = 0
    for k, (req, ans, m) in enumerate(zip(cases + stores, answers_a + answers, model)):
        head, P = impl_string(req, ans)
        mhead, mp = m.rsplit("|P=", 1)
        mP = mp.split("/") if req["connectors"] else []
        bad = None
        if head != mhead:
            for x, y in zip(head.split("|"), mhead.split("|")):
                if x != y:
                    bad = "field %s: impl %s model %s" % (x[:2], readable(x), readable(y))
                    break
        elif len(P) != len(mP) or any(p is not None and p != q for p, q in zip(P, mP)):
            bad = "parse of a validated connector's declaration: impl %s model %s" % (P, mP)
        if bad:
            ndis += 1
            if ndis <= 3:
                run.tie_broken("correspondence Text/Connector.v vs connector_config.rs / VPL parser on %s" % json.dumps(req)[:400], bad[:1500])
    run.extra["disagreements"] = ndis


def readable(field):
    tag, body = field[:2], field[2:]
    if tag in ("D=", "M=", "I="):
        return repr([T.from_cps(x) for x in body.split("/")]) if body else "[]"
    return body


def count(run, req, ans, injected):
    run.count("connectors=%d" % len(req["connectors"]))
    run.count("injected=%d" % len(injected))
    run.count("source=" + ("parses" if "ok" in ans["orig"] else "unparseable"))
    for c, v in zip(req["connectors"], ans["valid"]):
        for k, val in c["params"]:
            if val.isdigit():
                run.count("value=digits" + ("-leading-zero" if len(val) > 1 and val[0] == "0" else ""))
            elif '"' in val or "\\" in val:
                run.count("value=quote/backslash")
            elif "\n" in val or "\r" in val:
                run.count("value=line-break")
            elif val == "":
                run.count("value=empty")
            else:
                try:
                    float(val)
                    run.count("value=numeric-looking")
                except ValueError:
                    run.count("value=unicode" if any(ord(ch) > 127 for ch in val) else "value=plain")
        if dict(c["params"]).get("client_id_mode") == "append_pipeline":
            run.count("append_pipeline")


def shrink(binpath, req):
    def fails(r):
        a = harness.run_jsonl(binpath, [r])[0]
        return judge(r, a) is not None
    cur = req
    # drop connectors, then parameters, then source lines
    conns = T.shrink_list(cur["connectors"], lambda cs: fails({**cur, "connectors": cs}))
    cur = {**cur, "connectors": conns}
    for i in range(len(cur["connectors"])):
        c = cur["connectors"][i]
        ps = T.shrink_list(c["params"], lambda ps: fails({**cur, "connectors": cur["connectors"][:i] + [{**c, "params": ps}] + cur["connectors"][i + 1:]}))
        cur = {**cur, "connectors": cur["connectors"][:i] + [{**c, "params": ps}] + cur["connectors"][i + 1:]}
    lines = cur["source"].splitlines(True)
    lines = T.shrink_list(lines, lambda ls: fails({**cur, "source": "".join(ls)}))
    return {**cur, "source": "".join(lines)}


def replay(run, path):
    r = json.load(open(path))["replay"]["request"]
    ok, bindir, lg = harness.build(T.BIN)
    ans = harness.run_jsonl(os.path.join(bindir, T.BIN), [r])[0]
    run.case(("replay",), r)
    why = judge(r, ans)
    if why:
        run.violation(why, {"request": r, "implementation": {k: ans[k] for k in ("valid", "decls", "missing", "injected", "parsed")}})
