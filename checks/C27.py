"""C27 — coordinated multi-context checkpoints form a consistent cut."""
import json
import os

from checks import ctx_common as X
from vplib import harness

META = {
    "technique": "Coq proof over the transition system of the context runtime with barrier injection, ack assembly and restart (invariants by induction over every schedule; refutation witness; aligned-barrier reference design proved consistent) + trace validation of the real ContextRuntime / CheckpointCoordinator driven poll by poll, with real restore_checkpoint and replay",
    "design_ref": "DESIGN.md §7 C27",
    "level_text": "Theorems C27_* in coq/theories/Ctx/Props.v: the coordinator's checkpoint is NOT a consistent cut in general (C27_consistent_cut_refuted: the barrier goes straight into each inbox and overtakes an event in flight; after the restart that event is lost for every replay, C27_witness_lost_forever); it is for every schedule in which barriers are injected at a quiescent point and no input arrives before completion (C27_consistent_cut, the complement of the known-finding class); after a restart, exactly-once delivery holds for every replay schedule iff the cut was consistent (C27_restore_exactly_once_iff); barriers flowing through per-pair data channels with alignment give consistent cuts for every schedule and graph (C27_aligned_consistent). The model is tied to context.rs by replaying generated schedules (inputs, polls, initiate, try_complete, crash + restore_checkpoint + replay) and comparing outputs, inbox lengths, completion and per-context consumed counts step by step",
    "level_note": "Known finding (class checkpoint-not-at-quiescence) re-confirmed on every run by replaying the Coq witness on the real runtime. Modelled, not verified: tokio mpsc as bounded FIFO; interleaving = the model's atomic steps; engine restricted to stateless where/emit streams (the engine snapshot is its consumed count; window/pattern state is out of scope); 'inputs not yet consumed' = inputs its context had not taken at its snapshot (computed by the checker, the code has no input-offset tracking). The implementation runs are at poll granularity (a context empties its inbox per poll); finer interleavings (e.g. a context running between two barrier sends of initiate) are covered by the model only. Barrier ids restart at 1 after a restart (not compared)",
}

CLASS = "checkpoint-not-at-quiescence"

WPROG = {"n": 2, "streams": [{"name": "S0", "src": "E0", "ctx": 0, "thr": 0}, {"name": "S1", "src": "S0", "ctx": 1, "thr": 0}]}
# the schedule of Ctx.ProofsCut.c27_sched at poll granularity, then crash, restore, (nothing to replay), run to quiescence
WITNESS = {"prog": WPROG, "cap": 4, "kind": "witness",
           "sched": [("in", ("E0", 1, 5)), ("init",), ("poll", 1), ("poll", 0), ("complete",), ("restore",), ("poll", 0), ("poll", 1), ("poll", 0), ("poll", 1)]}


def unconsumed_inputs(sim, accepted):
    """inputs accepted before the crash that their context had not taken at its snapshot (simulator ghost logs)"""
    cp = sim.store[-1] if sim.store else None
    taken = {}
    for c in range(sim.n):
        taken[c] = [e for s, e in (cp[c]["recv"] if cp and c in cp else []) if s is None]
    out = []
    for e in accepted:
        c = X.route(sim.prog, e[0])
        if e in taken[c]:
            taken[c].remove(e)
        else:
            out.append(e)
    return out


def gen_case(rng, quiet):
    prog = X.gen_program(rng, allpass=True)
    cap = rng.choice([1, 2, 2, 3, 4, 8])
    sim = X.Sim(prog, cap)
    ins = X.input_types(prog)
    m = rng.range(3, 8)
    events = [(rng.choice(ins), i + 1, rng.below(10)) for i in range(m)]
    sched = []
    accepted = []

    def do(st):
        sched.append(st)
        return sim.step(st)

    def feed(e):
        tries = 0
        while not sim.can_ingress(e) and tries < 40:
            tries += 1
            if tries > 4:
                for c in reversed(range(sim.n)):
                    do(("poll", c))
            else:
                do(("poll", rng.below(sim.n)))
        if sim.can_ingress(e):
            do(("in", e))
            accepted.append(e)

    k0 = rng.range(0 if not quiet else 1, m)
    for e in events[:k0]:
        feed(e)
        for _ in range(rng.below(3)):
            do(("poll", rng.below(sim.n)))
    if quiet:
        X.finish_rounds(sim, sched, extra=0)
    do(("init",))
    rest = events[k0:]
    if not quiet:
        for _ in range(rng.below(5)):
            if rest and rng.chance(1, 2):
                feed(rest.pop(0))
            else:
                do(("poll", rng.below(sim.n)))
            if rng.chance(1, 6):
                do(("complete",))
    for _ in range(30):
        if sim.pending is None or len(sim.ackq) + len(sim.pending["acks"]) >= sim.n:
            break
        for c in rng.shuffle(list(range(sim.n))):
            do(("poll", c))
    do(("complete",))
    completed = sim.ncompleted > 0
    if completed:
        for _ in range(rng.below(4)):
            if rest and rng.chance(1, 2):
                feed(rest.pop(0))
            else:
                do(("poll", rng.below(sim.n)))
    do(("restore",))
    for e in unconsumed_inputs(sim, accepted):
        feed(e)
        if rng.chance(1, 2):
            do(("poll", rng.below(sim.n)))
    X.finish_rounds(sim, sched)
    return {"prog": prog, "cap": cap, "sched": sched, "kind": ("quiet" if quiet else "busy") + ("" if completed else "-incomplete")}


def exhaustive_cases(maxlen):
    """every macro schedule up to maxlen over {input, poll c0, poll c1, initiate, try_complete} on the 2-context pipeline
    (capacity 2), then polls until all acks, try_complete, crash, restore, replay, polls to quiescence"""
    out = []
    for seq in X.all_sequences(["in", "p0", "p1", "init", "complete"], maxlen):
        if "init" not in seq:
            continue
        sim = X.Sim(WPROG, 2)
        sched, accepted = [], []
        evs = [("E0", 1, 5), ("E0", 2, 5), ("E0", 3, 5)]
        ok = True
        for a in seq:
            if a == "in":
                if not evs or not sim.can_ingress(evs[0]):
                    ok = False
                    break
                st = ("in", evs.pop(0))
                accepted.append(st[1])
            elif a in ("init", "complete"):
                st = (a,)
            else:
                st = ("poll", int(a[1]))
            sched.append(st)
            sim.step(st)
        if not ok:
            continue
        for _ in range(6):
            if sim.pending is None or len(sim.ackq) + len(sim.pending["acks"]) >= sim.n:
                break
            for c in (1, 0):
                sched.append(("poll", c))
                sim.step(("poll", c))
        sched.append(("complete",))
        sim.step(("complete",))
        sched.append(("restore",))
        sim.step(("restore",))
        for e in unconsumed_inputs(sim, accepted):
            while not sim.can_ingress(e):
                for c in (1, 0):
                    sched.append(("poll", c))
                    sim.step(("poll", c))
            sched.append(("in", e))
            sim.step(("in", e))
        X.finish_rounds(sim, sched)
        out.append({"prog": WPROG, "cap": 2, "sched": sched, "kind": "exhaustive"})
    return out


def classify(case):
    """Known-finding class of the INPUT: a checkpoint whose barriers were injected while a message or an engine output was
    waiting somewhere, or during which an input was dispatched (simulator replay of the schedule)."""
    sim = X.Sim(case["prog"], case["cap"])
    open_cp = None
    hit = False
    for m in case["sched"]:
        if m[0] == "restore":
            break
        before_pending = sim.pending
        o = sim.step(m)
        if m[0] == "init" and before_pending is None and sim.pending is not None:
            # state right after the barrier sends: quiescent at injection <=> only the fresh barriers wait
            open_cp = {"quiet": all(not sim.outq[c] and all(x[0] == "bar" for x in sim.inbox[c]) for c in range(sim.n)) and
                       all(len(sim.inbox[c]) <= 1 for c in range(sim.n)) and not sim.ackq, "ingress": False}
        elif m[0] == "in" and open_cp is not None and o.startswith("ok;"):
            open_cp["ingress"] = True
        elif m[0] == "complete" and o.startswith("completed;") and open_cp is not None:
            if not open_cp["quiet"] or open_cp["ingress"]:
                hit = True
            open_cp = None
    return [CLASS] if hit else []


def consumption(prog, outs, b):
    """sequence of (type, id) context b consumed, read off the outputs of the designated first-level consumer streams"""
    designated = {}
    for s in prog["streams"]:
        x = s["src"]
        if s["ctx"] == b and X.route(prog, x) == b and X.ctx_of_stream(prog, x) != b and x not in designated.values():
            designated[s["name"]] = x
    return [(designated[t], i) for t, i, v in outs if t in designated]


def judge(case, ans, ref_out):
    """Property text on the implementation's observations. Returns (violations, machinery_problems)."""
    prog = case["prog"]
    if "panic" in ans or "error" in ans:
        return ["implementation failed: " + json.dumps(ans)[:300]], []
    kr = [k for k, m in enumerate(case["sched"]) if m[0] == "restore"]
    if not kr or not X.runs_to_quiescence(case):
        return [], []
    kr = kr[0]
    cps = [st["cp"] for st in ans["steps"][:kr] if "cp" in st]
    if not cps:
        return [], []                       # no completed checkpoint: nothing to judge
    counts = cps[-1]["consumed"]
    pre = [tuple(e) for st in ans["steps"][:kr] for e in st["out"]]
    post = [tuple(e) for st in ans["steps"][kr:] for e in st["out"]]
    accepted = [m[1] for m, st in zip(case["sched"][:kr], ans["steps"][:kr]) if m[0] == "in" and st.get("r") == "ok"]
    expected = []                            # (context, type, id, crosses?)
    for e in accepted:
        expected.append((X.route(prog, e[0]), e[0], e[1], False))
    for per in ref_out["out"]:
        for t, i, v in per:
            b = X.route(prog, t)
            a = X.ctx_of_stream(prog, t)
            if b is not None and b != a:
                expected.append((b, t, i, True))
    fails, problems = [], []
    for b in range(prog["n"]):
        cpre = consumption(prog, pre, b)
        nb = counts[b]
        if nb is None or len(cpre) < nb:
            problems.append("context %s: snapshot says %s events consumed but only %d consumptions are visible before the crash" % (X.ctxname(b), nb, len(cpre)))
            continue
        recovered = cpre[:nb] + consumption(prog, post, b)
        for (c, t, i, cross) in expected:
            if c != b:
                continue
            k = recovered.count((t, i))
            if k != 1:
                msg = "%s(id %d) for context %s: %s (in its snapshot: %s; delivered after the restart: %d)" % (
                    t, i, X.ctxname(b), "lost" if k == 0 else "delivered %d times" % k, (t, i) in cpre[:nb], consumption(prog, post, b).count((t, i)))
                (fails if cross else problems).append(msg)
    return fails, problems


# ---------------------------------------------------------------- the real threaded orchestrator with checkpointing
def orch_cp_cases(rng, n):
    out = []
    for i in range(n):
        prog = X.gen_program(rng, allpass=True)
        ins = X.input_types(prog)
        ev1 = [(rng.choice(ins), k + 1, rng.below(10)) for k in range(rng.range(6, 16))]
        ev2 = [(rng.choice(ins), 100 + k, rng.below(10)) for k in range(rng.range(3, 8))]
        out.append({"prog": prog, "cap": [1, 4, 1000][i % 3], "events": ev1, "events2": ev2})
    return out


def quiescent_counts(prog, events, start=None):
    """per-context number of consumed messages once everything has been processed (any complete schedule gives the same)"""
    sim = X.Sim(prog, 10 ** 6)
    if start:
        sim.consumed = list(start)
    for e in events:
        sim.step(("in", e))
    sched = []
    X.finish_rounds(sim, sched, extra=0)
    return list(sim.consumed)


def judge_orch_cp(c, a, ref1, ref2):
    if "phases" not in a:
        return ["threaded run failed: " + json.dumps(a)[:300]]
    n = c["prog"]["n"]
    c1 = quiescent_counts(c["prog"], c["events"])
    c2 = quiescent_counts(c["prog"], c["events2"], start=c1)
    want = [[[0] * n, c1], [c1, c2]]
    fails = []
    for ph in range(2):
        for k in range(2):
            cp = a["phases"][ph]["checkpoints"][k]
            if not cp["completed"]:
                fails.append("phase %d checkpoint %d did not complete" % (ph, k))
            elif cp["consumed"] != want[ph][k]:
                fails.append("phase %d checkpoint %d: contexts report %s events consumed, expected %s%s" % (
                    ph, k, cp["consumed"], want[ph][k], " (the state restored from the previous checkpoint)" if (ph, k) == (1, 0) else ""))
        got = X.per_stream([tuple(e) for e in a["phases"][ph]["out"]])
        ref = X.per_stream([tuple(e) for per in (ref1, ref2)[ph]["out"] for e in per])
        if got != ref:
            fails.append("phase %d: outputs differ from the context-free engine: %s vs %s" % (ph, got, ref))
    return fails


def run_orch_cp(run, binpath, rng):
    ocs = orch_cp_cases(rng, 3 if run.tier == "quick" else 24)
    refs1 = X.run_ref(binpath, [(c["prog"], c["events"]) for c in ocs])
    refs2 = X.run_ref(binpath, [(c["prog"], c["events2"]) for c in ocs])
    reqs = [{"mode": "orch_cp", "vpl": X.vpl(c["prog"]), "contexts": [X.ctxname(k) for k in range(c["prog"]["n"])], "cap": c["cap"],
             "events": [list(e) for e in c["events"]], "events2": [list(e) for e in c["events2"]],
             "expect": sum(len(p) for p in r1["out"]), "expect2": sum(len(p) for p in r2["out"]), "timeout_ms": 45000, "grace_ms": 150}
            for c, r1, r2 in zip(ocs, refs1, refs2)]
    with X.Phase(run, "threaded orchestrator runs"):
        answers = harness.run_jsonl(binpath, reqs, timeout=2400)
    for c, a, r1, r2 in zip(ocs, answers, refs1, refs2):
        run.count("kind:threaded-checkpoint-restore")
        run.case(("orch_cp", json.dumps(c, sort_keys=True)[:200]))
        fails = judge_orch_cp(c, a, r1, r2)
        if fails:
            run.violation("threaded ContextOrchestrator with checkpointing (quiescent checkpoints, restart from the recovered checkpoint): " + "; ".join(fails)[:600],
                          {"orch_cp_case": c, "vpl": X.vpl(c["prog"]), "implementation": a,
                           "contradicts": "C27_consistent_cut (checkpoint at quiescence) / restart must resume from the snapshot"})


def check(run):
    run.rule = ("random programs (2-3 contexts, all-pass where/emit streams, acyclic context graph) x inbox capacity 1-8 x schedules: inputs and polls, "
                "barrier injection at a quiescent point or in the middle of traffic, polls until every context acked, try_complete, more traffic, crash, "
                "restore_checkpoint of every context, replay of the inputs not consumed at the snapshots, run to quiescence; the Coq witness first. "
                "non-trivial = a checkpoint completed, was restored, and some event crossed a context boundary; distinct = distinct (program, capacity, schedule)")
    run.trusted += ["Coq 8.16.1 kernel + vm_compute", "hand-written model coq/theories/Ctx/Model.v (tied by step-by-step trace comparison: outputs, inbox lengths, completion, consumed counts of the persisted checkpoint)",
                    "harness/crates/ctx (polls ContextRuntime::run by hand; MemoryStore; CheckpointManager::recover + Engine::restore_checkpoint for the restart), checks/ctx_common.py (generator, simulator: computes the inputs to replay)",
                    "tokio::sync::mpsc modelled as a bounded FIFO"]
    run.assumptions += ["ack channel never full (2 x #contexts slots, at most one ack per context outstanding)",
                        "engine state = number of consumed events (stateless streams); output channel never full"]
    binpath = X.build(run, "C27.v")
    if binpath is None:
        return
    rng = run.rng
    n = 110 if run.tier == "quick" else 4000
    cases = [WITNESS] + [gen_case(rng, quiet=(i % 3 == 0)) for i in range(n)] + exhaustive_cases(2 if run.tier == "quick" else 5)
    with X.Phase(run, "implementation runs (poll by poll)"):
        answers = X.run_direct(binpath, cases)
    with X.Phase(run, "model runs (vm_compute)"):
        try:
            models = X.run_model("C27", cases)
        except RuntimeError as ex:
            run.tie_broken("model evaluation (coqc)", str(ex))
            models = None

    def accepted_pre(case, ans):
        kr = [k for k, m in enumerate(case["sched"]) if m[0] == "restore"]
        kr = kr[0] if kr else len(case["sched"])
        return [m[1] for m, st in zip(case["sched"][:kr], ans.get("steps", [])[:kr]) if m[0] == "in" and st.get("r") == "ok"]

    refs = X.run_ref(binpath, [(c["prog"], accepted_pre(c, a)) for c, a in zip(cases, answers)])
    nfail = 0
    ntie = 0
    witness_failed = False
    for k, (case, ans, ref) in enumerate(zip(cases, answers, refs)):
        run.count("kind:" + case["kind"])
        run.count("cap:%d" % case["cap"])
        cls = classify(case)
        run.count("class:" + (cls[0] if cls else "at-quiescence"))
        parts = None
        if models is not None and ntie < 3:
            ok, sim, parts = X.correspond(run, case, ans, models[k], "C27")
            if not ok:
                ntie += 1
                parts = None
        fails, problems = judge(case, ans, ref) if "out" in ref else (["reference run failed"], [])
        completed = "steps" in ans and any("cp" in st for st in ans["steps"])
        crossed = "out" in ref and any(X.route(case["prog"], t) not in (None, X.ctx_of_stream(case["prog"], t)) for per in ref["out"] for t, i, v in per)
        run.case((k,) if (completed and crossed) else None,
                 {"cap": case["cap"], "kind": case["kind"], "steps": len(case["sched"]), "class": cls})
        for p in problems[:1]:
            if ntie < 3:
                ntie += 1
                run.tie_broken("C27: replay bookkeeping (simulator vs implementation)", "%s\n%s" % (X.describe(case), p))
        if parts is not None and completed:
            kflags = [x for x in parts[2].split(";K=")[1].split(",") if x] if ";K=" in parts[2] else []
            model_consistent = bool(kflags) and kflags[-1] == "1"
            if model_consistent != (not fails) and not problems:
                run.tie_broken("C27: model verdict (cut_consistent of the persisted checkpoint) vs implementation verdict (loss/duplicate after restore + replay)",
                               "%s\n model K=%s, implementation: %s" % (X.describe(case), kflags, fails))
            if model_consistent is False and not cls:
                run.tie_broken("C27: model finds an inconsistent cut outside the known class (contradicts C27_consistent_cut)", X.describe(case))
        if fails:
            nfail += 1
            if case["kind"] == "witness":
                witness_failed = True
            if nfail <= 4 or not cls:
                run.violation("; ".join(fails)[:700],
                              {"case": case, "vpl": X.vpl(case["prog"]), "implementation": ans, "without_contexts": ref,
                               "contradicts": "C27_consistent_cut in coq/theories/Ctx/Props.v / property text (no event passed between contexts is lost or duplicated by restore + replay)"},
                              classes=cls)
    run.oblige("known finding re-confirmed: the witness of C27_consistent_cut_refuted loses S0(id 1) on the real runtime after restore", witness_failed,
               "the witness schedule no longer fails on the implementation: known_findings.json entry %s is stale" % CLASS)
    run.extra["oracle_failures"] = nfail
    run_orch_cp(run, binpath, rng)


def replay(run, path):
    r = json.load(open(path))["replay"]
    ok, bindir, lg = harness.build("vp-ctx")
    binpath = os.path.join(bindir, "vp-ctx")
    run.case(("replay",))
    run.case(("replay2",))
    if "orch_cp_case" in r:
        c = r["orch_cp_case"]
        c["events"] = [tuple(e) for e in c["events"]]
        c["events2"] = [tuple(e) for e in c["events2"]]
        r1, r2 = X.run_ref(binpath, [(c["prog"], c["events"]), (c["prog"], c["events2"])])
        a = harness.run_jsonl(binpath, [{"mode": "orch_cp", "vpl": X.vpl(c["prog"]), "contexts": [X.ctxname(k) for k in range(c["prog"]["n"])], "cap": c["cap"],
                                         "events": [list(e) for e in c["events"]], "events2": [list(e) for e in c["events2"]],
                                         "expect": sum(len(p) for p in r1["out"]), "expect2": sum(len(p) for p in r2["out"]), "timeout_ms": 45000, "grace_ms": 150}])[0]
        fails = judge_orch_cp(c, a, r1, r2)
        if fails:
            run.violation("; ".join(fails)[:700], {"orch_cp_case": c, "implementation": a})
        return
    c = r["case"]
    c["sched"] = [tuple(m[:1]) + tuple(tuple(x) if isinstance(x, list) else x for x in m[1:]) for m in c["sched"]]
    a = X.run_direct(binpath, [c])[0]
    kr = [k for k, m in enumerate(c["sched"]) if m[0] == "restore"]
    kr = kr[0] if kr else len(c["sched"])
    acc = [m[1] for m, st in zip(c["sched"][:kr], a.get("steps", [])[:kr]) if m[0] == "in" and st.get("r") == "ok"]
    ref = X.run_ref(binpath, [(c["prog"], acc)])[0]
    fails, problems = judge(c, a, ref)
    if fails:
        run.violation("; ".join(fails)[:700], {"case": c, "implementation": a}, classes=classify(c))
