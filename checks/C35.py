"""C35 — replicated coordinator state is deterministic and snapshot-equivalent; stores meet the RaftStorage contract."""
import concurrent.futures
import json

from checks import raft_common as R
from vplib import harness

META = {
    "technique": "Coq proof (fold/induction over command logs, sorted-log invariants of both stores) + translator tie of the "
                 "ClusterCommand/apply_command tables + model/impl differential on MemStore and a real RocksDB directory + "
                 "openraft testing::Suite on both stores",
    "design_ref": "DESIGN.md §7 C35",
    "level_text": "proof",
    "level_note": "Proved in Coq for the model: batching independence and snapshot+rest = full replay for both stores' state machines, "
                  "both stores observationally equal on every op sequence, storage-contract facts (log state incl. last_purged fallback, "
                  "range/purge/delete semantics on sorted logs, vote and snapshot round trips), apply_command's only panic site unreachable, "
                  "arms table = translator output. Modelled, not proved: serde_json round trip of snapshots/log entries, RocksDB iterator "
                  "order and WriteBatch atomicity, openraft itself. Tested: model = implementation on generated op sequences; "
                  "openraft's conformance suite (35 tests) per store.",
}


# ------------------------------------------------------------------ case generation
def partitions(rng, L):
    n = len(L)
    cuts = sorted(set(rng.below(n + 1) for _ in range(rng.below(4))))
    parts, prev = [], 0
    for c in cuts + [n]:
        parts.append(L[prev:c])      # empty batches on purpose
        prev = c
    return parts


def sm_group(rng, n, tier):
    """one committed log L and the op sequences that must all end in the same replicated state"""
    L = R.gen_log(rng, n)
    variants = []
    for store in ("mem", "rocks"):
        variants.append((store, "one", [("apply", L)]))
        variants.append((store, "singles", [("apply", [e]) for e in L]))
        variants.append((store, "parts", [("apply", p) for p in partitions(rng, L)]))
        idxs = list(range(n + 1)) if (n <= 5 or tier == "thorough") else sorted({0, n, rng.below(n + 1), rng.below(n + 1)})
        for i in idxs:
            pre = []
            if rng.chance(1, 2):
                X = R.gen_log(rng, rng.range(1, 3))
                pre = [("apply", X)]          # the receiving store had other state before the snapshot arrived
            mid = [("build",)] if rng.chance(1, 4) else []
            variants.append((store, "snap%d" % i, pre + [("install", L[:i])] + mid + [("apply", p) for p in partitions(rng, L[i:])]))
    return L, variants


BOUNDS = ["i", "e", "u"]


def gen_range(rng, hi=12):
    a = rng.below(hi)
    b = rng.range(a, hi)
    lo = (rng.choice(BOUNDS),)
    up = (rng.choice(BOUNDS),)
    lo = lo if lo[0] == "u" else (lo[0], a)
    up = up if up[0] == "u" else (up[0], b)
    if lo[0] == "e" and up[0] == "e" and a == b:
        up = ("e", b + 1)          # BTreeMap::range panics when start == end and both are excluded
    return ("range", lo, up)


def gen_contract(rng, store, maxlen):
    """random storage-API sequence; indices overlap on purpose (overwrite, purge beyond the end, delete from 0)"""
    ops = []
    nxt = rng.choice([0, 1, 1, 3])
    term = 1
    for _ in range(rng.range(3, maxlen)):
        k = rng.below(13)
        if k <= 3:
            if rng.chance(1, 5):
                term += 1
            es = R.gen_log(rng, rng.range(0, 4), start=nxt if rng.chance(4, 5) else max(0, nxt - 2), term=term)
            if es:
                nxt = es[-1][0][2] + 1
                term = es[-1][0][0]
            ops.append(("append", es))
        elif k == 4:
            ops.append(("vote", (rng.below(5), rng.range(1, 3), rng.chance(1, 2))))
        elif k == 5:
            j = rng.below(nxt + 2)
            ops.append(("delete", (term, 1, j)))
            nxt = min(nxt, j)
        elif k in (6, 7):
            j = rng.choice([0, rng.below(nxt + 1), max(0, nxt - 1), nxt + 3])      # incl. purge everything / beyond the end
            ops.append(("purge", (rng.range(1, term), rng.range(1, 2), j)))
            nxt = max(nxt, j + 1)
        elif k in (8, 9):
            ops.append(gen_range(rng, nxt + 3))
        elif k == 10:
            ops.append(("apply", R.gen_log(rng, rng.range(0, 3), start=rng.below(nxt + 1), term=term)))
        elif k == 11:
            ops.append(("build",))
        else:
            ops.append(("install", R.gen_log(rng, rng.range(0, 3), start=1)))
    # the shape the property text names: purge every entry, then ask for the log state
    if rng.chance(1, 3) and nxt > 0:
        ops.append(("purge", (term, 1, nxt - 1)))
    if store == "rocks" and rng.chance(1, 3):
        ops.insert(rng.range(1, len(ops)), ("restart",))
    return ops


# ------------------------------------------------------------------ oracles
def in_bound(lo, hi, i):
    a = True if lo[0] == "u" else (i >= lo[1] if lo[0] == "i" else i > lo[1])
    b = True if hi[0] == "u" else (i <= hi[1] if hi[0] == "i" else i < hi[1])
    return a and b


def contract_oracle(ops, ans):
    """RaftStorage obligations judged on the implementation's observations with a dictionary reference of the log.
    Returns list of failure strings (first failing step only)."""
    if "panic" in ans:
        return ["implementation panicked: " + ans["panic"]]
    log, purged, vote, applied, snap = {}, None, None, None, "none"
    for k, (op, o) in enumerate(zip(ops, ans["steps"])):
        if "error" in o:
            return ["step %d %s: %s" % (k, op[0], o["error"])]
        kind = op[0]
        if kind == "vote":
            vote = [op[1][0], op[1][1], bool(op[1][2])]
        elif kind == "append":
            for e in op[1]:
                log[e[0][2]] = list(e[0])
        elif kind == "delete":
            log = {i: l for i, l in log.items() if i < op[1][2]}
        elif kind == "purge":
            log = {i: l for i, l in log.items() if i > op[1][2]}
            purged = list(op[1])
        elif kind == "apply":
            if op[1]:
                applied = list(op[1][-1][0])
        elif kind == "build":
            snap = applied
        elif kind == "install":
            applied = list(op[1][-1][0]) if op[1] else None
            snap = applied
        f = []
        if o["vote"] != vote:
            f.append("read_vote gives %s, last saved vote is %s" % (o["vote"], vote))
        if o["purged"] != purged:
            f.append("last_purged_log_id %s, last purge was %s" % (o["purged"], purged))
        want_last = log[max(log)] if log else purged
        if o["last"] != want_last:
            f.append("get_log_state.last_log_id = %s, expected %s (log indices %s, last_purged %s)" % (o["last"], want_last, sorted(log), purged))
        got = [e["id"] for e in o["log"]]
        if got != [log[i] for i in sorted(log)]:
            f.append("log holds %s, expected %s" % (got, [log[i] for i in sorted(log)]))
        if o["applied"] != applied:
            f.append("last_applied %s, expected %s" % (o["applied"], applied))
        if snap == "none":
            if o["snap"] is not None:
                f.append("get_current_snapshot is Some before any snapshot was built or installed")
        elif o["snap"] is None or o["snap"]["last"] != snap:
            f.append("current snapshot %s, last built/installed at %s" % (None if o["snap"] is None else o["snap"]["last"], snap))
        if kind == "range":
            want = [log[i] for i in sorted(log) if in_bound(op[1], op[2], i)]
            for who in ("store", "reader"):
                g = [e["id"] for e in o["res"][who]]
                if g != want:
                    f.append("try_get_log_entries(%s,%s) on the %s gives %s, expected %s" % (op[1], op[2], who, g, want))
        if o.get("field_eq_shared") is False:
            f.append("published shared state differs from the store's state")
        if f:
            return ["step %d (%s): %s" % (k, kind, "; ".join(f))]
    return []


def sm_view(ans):
    if "panic" in ans:
        return "PANIC " + ans["panic"]
    o = ans["steps"][-1]
    if "error" in o:
        return "ERROR " + o["error"]
    return "A%s|M%s|T%s" % (R.s_logid(o["applied"]), R.s_smember(o["mem"]), R.s_state(o["state"]))


# ------------------------------------------------------------------ check
def run_ops(binpath, cases):
    reqs = [{"mode": "ops", "store": s, "ops": [R.op_serde(o) for o in ops]} for s, ops in cases]
    return R.run_batched(binpath, reqs, chunk=150, nproc=6)


def check(run):
    run.rule = ("(a) command logs of length 1..10 over all 16 command kinds + blank/membership entries, applied in one batch, one by one, "
                "in a random partition, and as snapshot-at-i + rest for every i (long logs: 0, n, two random) on MemStore and RocksStore; "
                "(b) random RaftStorage call sequences (append/overwrite, delete-conflict, purge incl. everything/beyond the end, vote, "
                "ranges with every bound kind, apply, build/install snapshot, restart) on both stores; (c) openraft testing::Suite per store. "
                "non-trivial = sequence with >= 3 ops that changes the state machine or the log; distinct = distinct (store, op list)")
    run.trusted += ["Coq 8.16.1 kernel + vm_compute",
                    "hand-written model coq/theories/Raft/Model.v tied by differential run (full observation after every op compared verbatim) "
                    "and by translate/cluster_command.py (enum ClusterCommand, structs, apply_command arms regenerated and re-checked)",
                    "Rust harness harness/crates/raft, Python driver checks/raft_common.py + checks/C35.py (generators, dictionary reference of the log store)",
                    "serde_json round trip of snapshot data / log entries, RocksDB key order and WriteBatch atomicity (modelled as sorted list / single step)",
                    "openraft 0.9.21 testing::Suite as the statement of the storage contract"]
    run.assumptions += ["log indices, terms and usize/u64 fields stay far below 2^63 (model uses unbounded Z)",
                        "try_get_log_entries is called with start <= end (BTreeMap::range panics otherwise); openraft only does so"]
    binpath = R.build_all(run, "C35.v")
    if binpath is None:
        return
    rng = run.rng
    ex = concurrent.futures.ThreadPoolExecutor(max_workers=2)
    suite_f = {st: ex.submit(harness.run_jsonl, binpath, [{"mode": "suite", "store": st}], (), 2400) for st in ("mem", "rocks")}

    # ---- (a) determinism / snapshot equivalence
    ngroups = 40 if run.tier == "quick" else 150
    groups = [sm_group(rng, 1 + (g % 10), run.tier) for g in range(ngroups)]
    # corpus: the shapes that failed on the unchanged tree are covered by (b)/(c); one hand-written group with every guard of MigrationStarted
    cases = []
    for gi, (L, variants) in enumerate(groups):
        for store, label, ops in variants:
            cases.append((store, ops, ("sm", gi, label)))
    # ---- (b) contract sequences
    nseq = 120 if run.tier == "quick" else 800
    corpus = [[("append", R.gen_log(rng, 3, start=0)), ("purge", (1, 1, 0)), ("purge", (9, 1, 2)), ("purge", (9, 2, 3))],
              [("append", R.gen_log(rng, 10, start=1)), ("purge", (1, 1, 20)), ("range", ("i", 0), ("e", 100))],
              [("build",)], [("apply", R.gen_log(rng, 2)), ("build",), ("apply", R.gen_log(rng, 2, start=3)), ("build",)]]
    for store in ("mem", "rocks"):
        for ops in corpus:
            cases.append((store, ops, ("contract",)))
    for k in range(nseq):
        store = "mem" if k % 2 == 0 else "rocks"
        cases.append((store, gen_contract(rng, store, 10 if k % 3 else 16), ("contract",)))

    answers = run_ops(binpath, [(s, o) for s, o, _ in cases])
    impl = [R.impl_case_str(a, ops) for a, (s, ops, _) in zip(answers, cases)]
    model = R.model_eval(run, "C35", ["%s_case %s" % (s, R.g_ops(ops)) for s, ops, _ in cases])

    n_oracle = n_corr = 0
    base = {}
    for (store, ops, tag), ans in zip(cases, answers):
        if tag[0] == "sm" and store == "mem" and tag[2] == "one":
            base[tag[1]] = sm_view(ans)
    for k, ((store, ops, tag), ans, si, sm) in enumerate(zip(cases, answers, impl, model)):
        changes = sum(1 for o in ops if o[0] in ("apply", "append", "install", "purge", "delete") and (len(o) < 2 or o[1]))
        run.case((store, json.dumps(ops)) if len(ops) >= 3 and changes >= 2 else None,
                 sample={"store": store, "ops": [R.op_serde(o) for o in ops][:3], "impl": si[:200]} if k in (0, len(cases) - 1) else None)
        run.count("store=" + store)
        run.count("kind=" + tag[0] + ("/" + tag[2].rstrip("0123456789") if tag[0] == "sm" else ""))
        for o in ops:
            run.count("op=" + o[0])
            for e in (o[1] if o[0] in ("append", "apply", "install") else []):
                run.count("payload=" + (e[1][1][0] if e[1][0] == "c" else e[1][0]))
        fails = []
        if tag[0] == "sm":
            v = sm_view(ans)
            if v != base[tag[1]]:
                fails.append("same committed log, different replicated state: %s/%s ends in %s, one-batch replay on MemStore ends in %s" % (
                    store, tag[2], v[:400], base[tag[1]][:400]))
        else:
            fails = contract_oracle(ops, ans)
        if fails:
            n_oracle += 1
            run.count("oracle_fail")
            if n_oracle <= 3:
                report(run, binpath, store, ops, tag, groups, fails)
        if sm is not None and si != sm:
            n_corr += 1
            if n_corr <= 3:
                d = first_diff(si, sm)
                run.tie_broken("correspondence Raft/Model.v vs crates/varpulis-cluster/src/raft on %s %s" % (store, json.dumps([R.op_serde(o) for o in ops])[:1500]), d)
    run.extra["oracle_failures"] = n_oracle
    run.extra["disagreements"] = n_corr

    # ---- (c) conformance suite
    for st, f in suite_f.items():
        try:
            res = f.result()[0]["results"]
        except Exception as e:          # noqa
            run.tie_broken("openraft testing::Suite run on %s" % st, str(e))
            continue
        run.count("suite_tests_%s" % st, len(res))
        run.oblige("openraft testing::Suite ran all 35 tests on %s" % st, len(res) == 35, str(len(res)))
        for name, r in res:
            run.case(("suite", st, name))
            if r != "ok":
                run.violation("openraft storage conformance test %s fails on %s: %s" % (name, "MemStore" if st == "mem" else "RocksStore", r[:400]),
                              {"kind": "suite", "store": st, "test": name, "outcome": r[:2000],
                               "contradicts": "C35 'stores meet the storage contract' (coq: C35_contract_* in Raft/Props.v)"})


def first_diff(si, sm):
    a, b = si.split("#"), sm.split("#")
    for k, (x, y) in enumerate(zip(a, b)):
        if x != y:
            return "step %d differs:\n impl  %s\n model %s" % (k, x[:1500], y[:1500])
    return "lengths differ: impl %d steps, model %d steps; last model step %s" % (len(a), len(b), b[-1][:300])


def report(run, binpath, store, ops, tag, groups, fails):
    if tag[0] == "contract":
        def still(c):
            return bool(contract_oracle(c, run_ops(binpath, [(store, c)])[0]))
        small = shrink_ops(ops, still)
        ans = run_ops(binpath, [(store, small)])[0]
        run.violation("; ".join(contract_oracle(small, ans))[:700],
                      {"kind": "contract", "store": store, "ops": small,
                       "contradicts": "RaftStorage contract (Raft/Props.v C35_contract_*)"})
    else:
        L, _ = groups[tag[1]]
        run.violation(fails[0][:700], {"kind": "sm", "store": store, "log": L, "ops": ops,
                                       "contradicts": "Raft/Props.v C35_batching_* / C35_snapshot_*"})


def shrink_ops(ops, still):
    changed = True
    while changed and len(ops) > 1:
        changed = False
        for i in range(len(ops) - 1, -1, -1):
            cand = ops[:i] + ops[i + 1:]
            try:
                if cand and still(cand):
                    ops = cand
                    changed = True
                    break
            except Exception:          # noqa
                pass
    return ops


def replay(run, path):
    r = json.load(open(path))["replay"]
    ok, bindir, lg = harness.build("vp-raft")
    import os
    binpath = os.path.join(bindir, "vp-raft")
    run.case(("replay", r["kind"]), r if r["kind"] == "suite" else None)
    if r["kind"] == "suite":
        res = dict(harness.run_jsonl(binpath, [{"mode": "suite", "store": r["store"]}], (), 600)[0]["results"])
        if res.get(r["test"]) != "ok":
            run.violation("openraft storage conformance test %s fails on %s: %s" % (r["test"], r["store"], res.get(r["test"], "")[:400]), r)
    elif r["kind"] == "contract":
        ops = R.revive_ops(r["ops"])
        fails = contract_oracle(ops, run_ops(binpath, [(r["store"], ops)])[0])
        if fails:
            run.violation("; ".join(fails)[:700], r)
    else:
        ops = R.revive_ops(r["ops"])
        L = R.revive_ops([["apply", r["log"]]])[0][1]
        a, b = run_ops(binpath, [(r["store"], ops), ("mem", [("apply", L)])])
        if sm_view(a) != sm_view(b):
            run.violation("same committed log, different replicated state: %s vs %s" % (sm_view(a)[:300], sm_view(b)[:300]), r)
