"""C40 — Value equality is an equivalence consistent with hashing."""
import itertools
import json
import os

from vplib import coqtools, harness

META = {
    "technique": "Coq proof (nested structural induction on values; sorted-entry canonical form for maps) about a model of Value's "
                 "PartialEq and of the exact Hasher write sequence of Value's Hash; model tied to value.rs by a differential run",
    "level_text": "proof about model + differential correspondence + relational oracle on the implementation",
    "level_note": "Proved for all well-formed values (map keys unique = IndexMap invariant), any depth: veq reflexive, symmetric, transitive; "
                  "veq a b -> identical Hasher write sequences (hence equal hashes under every Hasher). f64 == and is_nan are bit-level predicates in "
                  "the model, proved equal to Flocq's IEEE-754 binary64 is_nan / Bcompare for all 2^64 patterns (those two theorems inherit the "
                  "standard Reals axioms); strings as UTF-8 byte lists. "
                  "Tested: == matrix and recorded write sequence agree with the model; DefaultHasher and FxHasher values equal for == pairs.",
    "design_ref": "DESIGN.md §7 C40",
}

IMPORTS = ("From Coq Require Import String ZArith List.\nImport ListNotations.\n"
           "From VP Require Import Value.Model Value.Run.\nOpen Scope Z_scope.\n")

# standard-library axioms that Flocq's binary64 construction (b64_of_bits) brings into the two float-tie theorems
FLOCQ_AXIOMS = ("ClassicalDedekindReals.sig_not_dec", "ClassicalDedekindReals.sig_forall_dec",
                "FunctionalExtensionality.functional_extensionality_dep", "Classical_Prop.classic")

NAN = 0x7ff8000000000000
FLOATS = [0, 1 << 63, NAN, 0x7ff8000000000001, 0xfff8000000000000, 0x7ff0000000000001, 0xffffffffffffffff,
          0x7ff0000000000000, 0xfff0000000000000, 0x3ff0000000000000, 0xbff0000000000000, 1, (1 << 63) | 1,
          0x7fefffffffffffff, 0x4000000000000000, 0x3fe0000000000000, 0x4045000000000000]
INTS = [0, 1, -1, 2, 42, 2 ** 63 - 1, -2 ** 63, 4607182418800017408]
STRS = ["", "a", "b", "ab", "ba", "aa", "é", "aé", "日本", "k", "0", "A"]
KEYS = ["a", "b", "c", "ab", "", "é", "aa", "B", "a\u0000", "z"]


# ------------------------------------------------------------------ generation (tagged JSON values, see vp-common)
def gen_leaf(rng):
    k = rng.below(9)
    if k == 0:
        return {"n": None}
    if k == 1:
        return {"b": rng.chance(1, 2)}
    if k == 2:
        return {"i": str(rng.choice(INTS))}
    if k in (3, 4):
        return {"f": str(rng.choice(FLOATS) if rng.chance(5, 6) else rng.below(1 << 64))}
    if k == 5:
        return {"s": rng.choice(STRS)}
    if k == 6:
        return {"ts": str(rng.choice(INTS))}
    if k == 7:
        return {"dur": str(abs(rng.choice(INTS)) % (1 << 64))}
    return {"i": str(rng.range(-3, 3))}


def gen_value(rng, depth):
    if depth == 0 or rng.chance(2, 5):
        return gen_leaf(rng)
    if rng.chance(1, 2):
        return {"a": [gen_value(rng, depth - 1) for _ in range(rng.range(0, 3))]}
    keys = rng.shuffle(KEYS)[:rng.range(0, 4)]
    return {"m": [[k, gen_value(rng, depth - 1)] for k in keys]}


def tag(v):
    return next(iter(v))


def permute(rng, v):
    """Same value with every map's entries in another insertion order (equal by ==)."""
    t = tag(v)
    if t == "a":
        return {"a": [permute(rng, x) for x in v["a"]]}
    if t == "m":
        es = [[k, permute(rng, x)] for k, x in v["m"]]
        return {"m": rng.shuffle(es) if rng.chance(3, 4) else list(reversed(es))}
    return v


def float_twin(rng, v):
    """Replace floats by ==-equal twins (other NaN payload, other zero sign)."""
    t = tag(v)
    if t == "f":
        b = int(v["f"])
        e, m = (b >> 52) & 0x7ff, b & ((1 << 52) - 1)
        if e == 0x7ff and m:
            return {"f": str(rng.choice([NAN, 0xfff8000000000000, 0x7ff0000000000001, 0x7ff8000000000001]))}
        if b & ((1 << 63) - 1) == 0:
            return {"f": str(rng.choice([0, 1 << 63]))}
        return v
    if t == "a":
        return {"a": [float_twin(rng, x) for x in v["a"]]}
    if t == "m":
        return {"m": [[k, float_twin(rng, x)] for k, x in v["m"]]}
    return v


def mutate(rng, v):
    """A nearby, usually different value."""
    t = tag(v)
    if t == "a" and v["a"] and rng.chance(2, 3):
        xs = list(v["a"])
        k = rng.below(4)
        if k == 0:
            i = rng.below(len(xs))
            xs[i] = mutate(rng, xs[i])
        elif k == 1:
            xs = xs[:-1]
        elif k == 2:
            xs = xs + [gen_leaf(rng)]
        else:
            xs = list(reversed(xs))
        return {"a": xs}
    if t == "m" and v["m"] and rng.chance(2, 3):
        es = [list(e) for e in v["m"]]
        k = rng.below(4)
        if k == 0:
            i = rng.below(len(es))
            es[i][1] = mutate(rng, es[i][1])
        elif k == 1:
            es = es[:-1]
        elif k == 2:
            free = [x for x in KEYS if x not in [e[0] for e in es]]
            es = es + [[rng.choice(free), gen_leaf(rng)]]
        else:
            # same values under swapped keys
            if len(es) >= 2:
                es[0][0], es[1][0] = es[1][0], es[0][0]
        return {"m": es}
    if t in ("i", "ts", "dur") and rng.chance(1, 2):
        # same number, other variant
        n = int(v[t])
        alt = rng.choice(["i", "ts", "dur", "f"])
        if alt == "dur":
            return {"dur": str(n % (1 << 64))}
        if alt == "f":
            return {"f": str(n % (1 << 64))}
        return {alt: str(max(-2 ** 63, min(2 ** 63 - 1, n)))}
    return gen_leaf(rng)


def gen_rich(rng, depth):
    """A value in which permuting / twinning changes the text: a map with >= 2 entries containing special floats."""
    keys = rng.shuffle(KEYS)[:rng.range(2, 4)]
    es = []
    for k in keys:
        c = rng.below(4)
        if c == 0:
            es.append([k, {"f": str(rng.choice(FLOATS[:7]))}])
        elif c == 1 and depth > 1:
            es.append([k, gen_rich(rng, depth - 1)])
        else:
            es.append([k, gen_value(rng, depth - 1)])
    v = {"m": es}
    return {"a": [gen_leaf(rng), v]} if rng.chance(1, 5) else v


def gen_family(rng):
    depth = rng.choice([0, 1, 2, 2, 3, 3])
    base = gen_rich(rng, depth) if depth >= 1 and rng.chance(3, 4) else gen_value(rng, depth)
    fam = [base]
    kinds = []
    for _ in range(rng.range(2, 5)):
        src = rng.choice(fam)
        k = rng.choice(["perm", "perm", "twin", "mut", "mut", "both", "fresh"])
        kinds.append(k)
        if k == "perm":
            fam.append(permute(rng, src))
        elif k == "twin":
            fam.append(float_twin(rng, src))
        elif k == "both":
            fam.append(float_twin(rng, permute(rng, src)))
        elif k == "mut":
            fam.append(mutate(rng, src))
        else:
            fam.append(gen_value(rng, depth))
    return fam, kinds, depth


CORPUS = [
    # DESIGN §10: {a:1,b:2} vs {b:2,a:1}
    [{"m": [["a", {"i": "1"}], ["b", {"i": "2"}]]}, {"m": [["b", {"i": "2"}], ["a", {"i": "1"}]]}],
    [{"f": str(NAN)}, {"f": str(0xfff8000000000000)}, {"f": str(0x7ff0000000000001)}, {"f": "0"}, {"f": str(1 << 63)}, {"i": "0"}, {"ts": "0"}, {"dur": "0"}, {"n": None}, {"b": False}],
    [{"m": [["a", {"m": [["x", {"f": "0"}], ["y", {"a": []}]]}], ["b", {"f": str(NAN)}]]},
     {"m": [["b", {"f": str(0x7ff8000000000001)}], ["a", {"m": [["y", {"a": []}], ["x", {"f": str(1 << 63)}]]}]]},
     {"m": [["a", {"m": [["x", {"f": "0"}], ["y", {"a": []}]]}]]}],
    [{"a": [{"i": "1"}, {"i": "2"}]}, {"a": [{"i": "2"}, {"i": "1"}]}, {"a": [{"i": "1"}]}, {"a": []}, {"m": []}, {"s": ""}],
    [{"m": [["a", {"i": "1"}], ["ab", {"i": "2"}], ["", {"i": "3"}], ["é", {"i": "4"}], ["B", {"i": "5"}]]},
     {"m": [["é", {"i": "4"}], ["B", {"i": "5"}], ["ab", {"i": "2"}], ["", {"i": "3"}], ["a", {"i": "1"}]]},
     {"m": [["a", {"i": "2"}], ["ab", {"i": "1"}], ["", {"i": "3"}], ["é", {"i": "4"}], ["B", {"i": "5"}]]}],
]


# ------------------------------------------------------------------ Gallina
def g_bytes(s):
    return "[" + ";".join(str(b) for b in s.encode("utf-8")) + "]"


def g_value(v):
    t = tag(v)
    x = v[t]
    if t == "n":
        return "VNull"
    if t == "b":
        return "(VBool %s)" % ("true" if x else "false")
    if t == "i":
        return "(VInt (%s))" % x
    if t == "f":
        return "(VFloat %s)" % x
    if t == "s":
        return "(VStr %s)" % g_bytes(x)
    if t == "ts":
        return "(VTs (%s))" % x
    if t == "dur":
        return "(VDur %s)" % x
    if t == "a":
        return "(VArr [%s])" % ";".join(g_value(y) for y in x)
    if t == "m":
        return "(VMap [%s])" % ";".join("(%s,%s)" % (g_bytes(k), g_value(y)) for k, y in x)
    raise ValueError(t)


def depth_of(v):
    t = tag(v)
    if t == "a":
        return 1 + max([depth_of(x) for x in v["a"]] + [0])
    if t == "m":
        return 1 + max([depth_of(x) for _, x in v["m"]] + [0])
    return 0


# ------------------------------------------------------------------ oracle: the relational properties, on the implementation's answers
def oracle(vals, ans):
    if "panic" in ans:
        return [("panic", (0,), "implementation panicked: " + ans["panic"][:120])]
    eq = [[c == "1" for c in row] for row in ans["eq"]]
    n = len(vals)
    fails = []
    for i in range(n):
        if not eq[i][i]:
            fails.append(("reflexive", (i,), "value %d is not equal to itself" % i))
    for i in range(n):
        for j in range(i + 1, n):
            if eq[i][j] != eq[j][i]:
                fails.append(("symmetric", (i, j), "a == b is %s but b == a is %s (values %d, %d)" % (eq[i][j], eq[j][i], i, j)))
    for i, j, k in itertools.permutations(range(n), 3):
        if eq[i][j] and eq[j][k] and not eq[i][k]:
            fails.append(("transitive", (i, j, k), "a == b and b == c but not a == c (values %d, %d, %d)" % (i, j, k)))
            break
    for i in range(n):
        for j in range(n):
            if i != j and eq[i][j]:
                for h in ("sip", "fx"):
                    if ans[h][i] != ans[h][j]:
                        fails.append(("hash", (i, j), "values %d and %d are equal but their %s hashes differ (%s vs %s)" %
                                      (i, j, "DefaultHasher" if h == "sip" else "FxHasher", ans[h][i], ans[h][j])))
                        break
    return fails


def impl_str(ans):
    return "/".join(ans["eq"]) + "|" + "/".join(ans["stream"])


def build(run):
    hits = coqtools.banned_scan()
    run.oblige("no Admitted/admit/Axiom/Parameter/guard-off anywhere in coq/", not hits, str(hits[:5]))
    ok, lg = coqtools.make(["theories/Value/Props.vo", "theories/Value/Run.vo"])
    run.oblige("make theories/Value/Props.vo", ok, lg[-3000:])
    if ok:
        a = coqtools.audit("C40.v")
        run.axioms |= a["axioms"]
        run.oblige("audit C40.v (refl/sym/trans/hash): %d Check pins, %d/%d Print Assumptions, no axioms" % (a["n_pins"], a["n_print"], a["n_expected"]),
                   a["ok"], a["log"] + str(a["bad_axioms"]))
        f = coqtools.audit("C40_float.v", allow_axioms=FLOCQ_AXIOMS)
        run.axioms |= f["axioms"]
        run.oblige("audit C40_float.v (model floats = Flocq binary64): %d Check pins, %d/%d Print Assumptions, only the allowed Reals axioms" % (f["n_pins"], f["n_print"], f["n_expected"]),
                   f["ok"], f["log"] + str(f["bad_axioms"]))
        run.extra["theorems_audited"] = a["n_print"] + f["n_print"]
    else:
        coqtools.make(["theories/Value/Run.vo"])
    run.checker_cmd = "coqc 8.16.1 (full .vo) theories/Value/Props.v; coqc coq/audit/C40.v; coqc coq/audit/C40_float.v"
    okb, bindir, blog = harness.build("vp-value")
    if not okb:
        run.tie_broken("harness build vp-value", blog[-3000:])
        return None
    return os.path.join(bindir, "vp-value")


def check(run):
    run.rule = ("families of 3-6 related values of depth <= 3 over every variant: a random base value plus map-permuted copies, float twins "
                "(other NaN payloads, other zero sign), local mutations (one leaf / one entry / swapped keys / same number in another variant), "
                "fresh values; all pairs and triples of each family are judged; non-trivial = the family has two differently written values "
                "that are == and two that are not; distinct = distinct family")
    run.trusted += ["Coq 8.16.1 kernel + vm_compute",
                    "hand-written model coq/theories/Value/Model.v tied by differential run (full == matrix of each family, exact sequence of Hasher::write_* calls of each value)",
                    "f64::is_nan / == are Flocq's binary64 is_nan / Bcompare = Some Eq (proved equal to the model's bit-level predicates: C40_float_nan_is_ieee, C40_float_eq_is_ieee; those two theorems only use the Reals axioms listed below)",
                    "Rust harness harness/crates/value (recording Hasher, DefaultHasher, FxHasher), vp-common tagged JSON, Python driver checks/C40.py",
                    "std: Hash for i64/u64/usize/bool/str/Discriminant call the write_* methods the recording hasher sees (write_str = write + write_u8(0xff))"]
    run.assumptions += ["map keys are unique (IndexMap invariant; the harness builds maps by insert)", "array / map lengths fit usize"]
    binpath = build(run)
    if binpath is None:
        return
    fams = [(f, ["corpus"], max(depth_of(v) for v in f)) for f in CORPUS]
    n = 600 if run.tier == "quick" else 20000
    for _ in range(n):
        fams.append(gen_family(run.rng))
    # all pairs of special floats (and the same-number values of the other variants)
    specials = [{"f": str(b)} for b in FLOATS] + [{"i": "0"}, {"ts": "0"}, {"dur": "0"}, {"i": "1"}]
    for i in range(0, len(specials), 7):
        for j in range(0, len(specials), 7):
            fams.append((specials[i:i + 7] + specials[j:j + 7], ["floatpairs"], 0))
    answers = harness.run_jsonl(binpath, [{"vals": f} for f, _, _ in fams])
    try:
        model = coqtools.coq_eval("C40", IMPORTS, ["val_case [%s]" % ";".join(g_value(v) for v in f) for f, _, _ in fams],
                                  shard=max(20, min(200, len(fams) // 16 + 1)))
    except RuntimeError as e:
        run.tie_broken("model evaluation (coqc cases)", str(e))
        model = [None] * len(fams)
    n_or = n_corr = 0
    reported = set()
    for k, ((fam, kinds, depth), ans, ms) in enumerate(zip(fams, answers, model)):
        eq = ans.get("eq", [])
        texts = [json.dumps(v, sort_keys=False) for v in fam]
        has_eq = any(eq[i][j] == "1" and texts[i] != texts[j] for i in range(len(fam)) for j in range(len(fam)) if i != j) if eq else False
        has_ne = any(c == "0" for row in eq for c in row)
        run.case(json.dumps(fam) if has_eq and has_ne else None, sample={"vals": fam[:3], "eq": eq[:3]} if k in (0, 8) else None)
        for kd in kinds:
            run.count("variant=" + kd)
        run.count("depth=%d" % max(depth_of(v) for v in fam))
        for v in fam:
            run.count("top=" + tag(v))
        run.count("equal_pairs", sum(row.count("1") for row in eq) - len(fam) if eq else 0)
        run.count("unequal_pairs", sum(row.count("0") for row in eq) if eq else 0)
        fails = oracle(fam, ans)
        if fails:
            n_or += 1
            run.count("oracle_fail")
            cat, idx, msg = fails[0]
            if cat not in reported:
                reported.add(cat)
                sub = [fam[i] for i in idx]
                sa = harness.run_jsonl(binpath, [{"vals": sub}])[0]
                sf = oracle(sub, sa)
                run.violation((sf[0][2] if sf else msg)[:600], {"vals": sub, "implementation": sa,
                                                                "contradicts": "C40_refl / C40_sym / C40_trans / C40_hash in coq/theories/Value/Props.v"})
            continue
        if ms is None:
            continue
        meq, _, rest = ms.partition("|")
        mstream, _, mwf = rest.partition("|")
        if "0" in mwf:
            run.tie_broken("generator produced a map with duplicate keys", json.dumps(fam)[:500])
            continue
        si = impl_str(ans)
        if si != meq + "|" + mstream:
            n_corr += 1
            if n_corr <= 3:
                run.tie_broken("correspondence Value/Model.v vs value.rs on %s" % json.dumps(fam)[:1500], "impl  %s\n model %s" % (si[:1500], (meq + "|" + mstream)[:1500]))
    run.extra["oracle_failures"] = n_or
    run.extra["disagreements"] = n_corr


def replay(run, path):
    r = json.load(open(path))["replay"]
    ok, bindir, lg = harness.build("vp-value")
    ans = harness.run_jsonl(os.path.join(bindir, "vp-value"), [{"vals": r["vals"]}])[0]
    run.case(("replay",), {"vals": r["vals"]})
    fails = oracle(r["vals"], ans)
    if fails:
        run.violation(fails[0][2][:600], {"vals": r["vals"], "implementation": ans})
