"""C45 — a resilient sink never loses an event and its breaker follows its contract."""
import itertools
import json
import os

from vplib import coqtools, harness

META = {
    "technique": "Coq proof (invariants by induction over all operation histories / interleavings) about a model of CircuitBreaker + "
                 "ResilientSink + DLQ; model tied to the code by a differential run with hand-polled concurrent senders on the injectable clock",
    "level_text": "proof about model + differential correspondence + trace oracle on the implementation",
    "level_note": "Proved for all histories and interleavings (operation granularity = the breaker's mutex sections): no handed-over event "
                  "is lost (delivered, in the DLQ with sink name and error, or still in flight); the breaker opens at exactly threshold "
                  "consecutive failures; while open every request before last_failure+timeout is rejected and the first one after it is the "
                  "probe; while half-open nothing else is admitted until a result is recorded, which closes (success) or reopens (failure). "
                  "Modelled: strings (sink name, error text) as numbers, events as ids, DLQ file as a list. Tested only: DLQ JSON lines are "
                  "readable and name connector/error/event; file-system write errors are outside the model.",
    "design_ref": "DESIGN.md §7 C45",
}

NAME = "sink-7"
NAME_ID = 7
IMPORTS = ("From Coq Require Import String ZArith List.\nImport ListNotations.\n"
           "From VP Require Import Breaker.Model Breaker.Run.\nOpen Scope Z_scope.\n")


# ------------------------------------------------------------------ generation
class Sim:
    """Generator-side bookkeeping only (which senders are probably in flight); never used for a verdict."""

    def __init__(self, threshold, timeout):
        self.th, self.to = threshold, timeout
        self.st, self.f, self.last, self.now = "C", 0, None, 0

    def allow(self):
        if self.st == "C":
            return True
        if self.st == "O" and self.last is not None and self.now - self.last >= self.to:
            self.st = "H"
            return True
        return False

    def succ(self):
        self.f = 0
        if self.st == "H":
            self.st = "C"

    def fail(self):
        self.f += 1
        self.last = self.now
        if self.st == "H" or (self.st == "C" and self.f >= self.th):
            self.st = "O"


def gen_case(rng, maxlen=14):
    th = rng.choice([1, 1, 2, 2, 3, 4])
    to = rng.choice([1, 10, 10, 100])
    cfg = {"threshold": th, "timeout_ns": to, "dlq": not rng.chance(1, 12), "name": NAME, "atomic_batch": rng.chance(1, 4)}
    sim = Sim(th, to)
    ops = []
    inflight = {}       # sender -> ids
    next_id = 1
    n = rng.range(3, maxlen)
    pfail = rng.choice([2, 3, 5, 7])      # failures out of 8
    direct = rng.chance(1, 5)
    for _ in range(n):
        k = rng.below(100)
        free = [s for s in (1, 2, 3) if s not in inflight]
        if sim.st == "O" and free and rng.chance(1, 2):
            # go for the probe: wait around the reset timeout, then send
            sim.now += rng.choice([to - 1, to, to, to + 1, 3 * to])
            ops.append(["t", sim.now])
            k = 30
        elif sim.st == "H" and free and rng.chance(1, 2):
            k = 30                      # a second sender while the probe is in flight
        if k < 22:
            dt = rng.choice([0, 1, to - 1, to, to, to + 1, 2 * to, rng.range(0, 2 * to)])
            sim.now += max(0, dt)
            ops.append(["t", sim.now])
        elif k < 60 and free:
            s = rng.choice(free)
            batch = rng.chance(1, 3)
            m = rng.range(1, 4) if batch else 1
            ids = list(range(next_id, next_id + m))
            next_id += m
            ops.append(["start", s, "batch" if batch else "send", ids])
            if sim.allow():
                inflight[s] = ids
        elif k < 90 and inflight:
            s = rng.choice(sorted(inflight))
            ids = inflight.pop(s)
            if rng.below(8) < pfail:
                kk = rng.below(len(ids))
                ops.append(["finish", s, kk, "err%d" % rng.range(1, 9), ids])
                sim.fail()
            else:
                ops.append(["finish", s, -1, "", ids])
                sim.succ()
        elif direct:
            o = rng.choice(["allow", "allow", "succ", "fail", "fail"])
            ops.append([o])
            if o == "allow":
                sim.allow()
            elif o == "succ":
                sim.succ()
            else:
                sim.fail()
        elif rng.chance(1, 6) and not inflight:
            # a finish for a sender that is not in flight (must be a no-op on both sides)
            ops.append(["finish", 3, -1, "", [999]])
    # let most runs finish what is in flight
    if rng.chance(3, 4):
        for s in sorted(inflight):
            ids = inflight[s]
            if rng.below(8) < pfail:
                ops.append(["finish", s, rng.below(len(ids)), "err%d" % rng.range(1, 9), ids])
            else:
                ops.append(["finish", s, -1, "", ids])
    return {"cfg": cfg, "ops": ops}


def cfgd(th, to, **kw):
    d = {"threshold": th, "timeout_ns": to, "dlq": True, "name": NAME, "atomic_batch": False}
    d.update(kw)
    return d


CORPUS = [
    # half-open with two concurrent senders (DESIGN §7 C45 expected defect; repaired by the fix commit)
    {"cfg": cfgd(1, 10), "ops": [["start", 1, "send", [1]], ["finish", 1, 0, "err1", [1]], ["start", 2, "send", [2]], ["t", 10],
                                 ["start", 2, "send", [3]], ["start", 3, "send", [4]], ["finish", 2, -1, "", [3]], ["finish", 3, 0, "err2", [4]]]},
    {"cfg": cfgd(2, 10), "ops": [["start", 1, "batch", [1, 2, 3]], ["finish", 1, 1, "err3", [1, 2, 3]], ["allow"], ["fail"], ["allow"], ["t", 9],
                                 ["allow"], ["t", 10], ["allow"], ["allow"], ["succ"]]},
    # stale result of a request admitted before the breaker opened arrives while half-open
    {"cfg": cfgd(1, 10), "ops": [["start", 1, "send", [1]], ["start", 2, "send", [2]], ["finish", 1, 0, "err1", [1]], ["t", 10],
                                 ["start", 3, "send", [3]], ["finish", 2, -1, "", [2]], ["start", 1, "send", [4]], ["finish", 3, 0, "err2", [3]]]},
    {"cfg": cfgd(3, 100, atomic_batch=True), "ops": [["start", 1, "batch", [1, 2]], ["finish", 1, 0, "err4", [1, 2]], ["start", 1, "batch", [3, 4]],
                                                      ["finish", 1, 1, "err4", [3, 4]], ["start", 1, "send", [5]], ["finish", 1, 0, "err5", [5]],
                                                      ["start", 2, "send", [6]], ["t", 99], ["start", 2, "send", [7]], ["t", 100], ["start", 2, "send", [8]]]},
    {"cfg": cfgd(1, 10, dlq=False), "ops": [["start", 1, "send", [1]], ["finish", 1, 0, "err1", [1]], ["start", 2, "send", [2]]]},
]


def exhaustive_cases(th, to, length):
    """All outcome patterns for one sequential sender (each request: succeed / fail / preceded by waiting timeout) of a given length."""
    cases = []
    for pat in itertools.product("SFsf", repeat=length):
        ops, now, i = [], 0, 1
        for ch in pat:
            if ch in "sf":
                now += to
                ops.append(["t", now])
            ops.append(["start", 1, "send", [i]])
            ops.append(["finish", 1, 0 if ch in "Ff" else -1, "err1", [i]])
            i += 1
        cases.append({"cfg": cfgd(th, to), "ops": ops})
    return cases


# ------------------------------------------------------------------ implementation / model
def run_impl(binpath, cases):
    return harness.run_jsonl(binpath, [{"cfg": c["cfg"], "ops": c["ops"]} for c in cases])


def code_of(msg):
    return int(msg[3:]) if msg.startswith("err") and msg[3:].isdigit() else 0


def g_op(o):
    k = o[0]
    if k == "t":
        return "OTime %d" % o[1]
    if k == "start":
        return "OStart %d %s [%s]" % (o[1], "true" if o[2] == "batch" else "false", ";".join(str(i) for i in o[3]))
    if k == "finish":
        return "OFinish %d (%d) %d" % (o[1], o[2], code_of(o[3]))
    return {"allow": "OAllow", "succ": "OSucc", "fail": "OFail"}[k]


def g_case(c):
    cfg = c["cfg"]
    return "cb_case %d %d %s %d %s [%s]" % (cfg["threshold"], cfg["timeout_ns"], "true" if cfg["dlq"] else "false", NAME_ID,
                                          "true" if cfg["atomic_batch"] else "false", "; ".join(g_op(o) for o in c["ops"]))


def canon_res(r):
    if r is True:
        return "1"
    if r is False:
        return "0"
    if r == "t" or r == "-":
        return "-"
    if isinstance(r, str) and r.startswith("err:circuit breaker open for sink '%s'" % NAME):
        return "open"
    if isinstance(r, str) and r.startswith("err:err"):
        return r[4:]
    return str(r)


def impl_str(ans):
    if "panic" in ans:
        return "PANIC " + ans["panic"][:100]
    steps = ";".join("%s,%s" % (canon_res(s["r"]), s["st"]) for s in ans["steps"])
    q = []
    for d in ans["dlq"]:
        if "unreadable" in d:
            q.append("unreadable")
            continue
        conn = str(NAME_ID) if d["connector"] == NAME else "?%s" % d["connector"]
        e = "open" if d["error"] == "circuit breaker open" else str(d["error"])
        q.append("%s:%s:%s" % (conn, e, d["id"]))
    return "S:%s|D:%s|Q:%s|I:%s|N:%s" % (steps, ",".join(str(i) for i in ans["delivered"]), ",".join(q),
                                        ",".join(str(i) for i in ans["inflight"]), ",".join(str(i) for i in ans["counters"]))


# ------------------------------------------------------------------ oracle: the property text on the implementation's trace
def oracle(case, ans):
    cfg, ops = case["cfg"], case["ops"]
    if "panic" in ans:
        return [("panic", "implementation panicked: " + ans["panic"][:150])]
    fails = []
    th, to = cfg["threshold"], cfg["timeout_ns"]
    now, consec, last_fail, t_open = 0, 0, None, None
    prev = "C"
    admitted = {}          # sender -> ids (admitted, in flight)
    probe = None           # sender id or "direct": the request admitted by the Open->HalfOpen transition, result not yet recorded
    handed = {}            # event id -> expected DLQ error text if it is not delivered
    done = set()
    for k, (o, s) in enumerate(zip(ops, ans["steps"])):
        st, r = s["st"], s["r"]
        kind = o[0]
        record = None      # "S" / "F" when this op recorded a result
        if kind == "t":
            now = o[1]
        elif kind in ("start", "allow"):
            ok = (r == "inflight") if kind == "start" else (r is True)
            if kind == "start" and r not in ("inflight",) and not str(r).startswith("err:circuit breaker open"):
                fails.append(("contract", "op %d: start answered %r" % (k, r)))
            if prev == "O":
                # must reject while the timeout since opening has not passed; must admit once it has passed since the last failure
                early = t_open is not None and now - t_open < to
                if early and ok:
                    fails.append(("timeout", "op %d: open breaker admitted a request %d ns after it opened (reset timeout %d)" % (k, now - t_open, to)))
                if early and st != "O":
                    fails.append(("timeout", "op %d: breaker left Open before the reset timeout" % k))
                if last_fail is not None and now - last_fail >= to and not ok:
                    fails.append(("timeout", "op %d: request %d ns after the last failure still rejected (reset timeout %d)" % (k, now - last_fail, to)))
                if ok:
                    if st != "H":
                        fails.append(("probe", "op %d: request admitted from Open but state is %s" % (k, st)))
                    probe = o[1] if kind == "start" else "direct"
            elif prev == "H":
                if ok and probe is not None:
                    fails.append(("probe", "op %d: half-open breaker admitted a second request while the probe (%s) is still in flight" % (k, probe)))
            if kind == "start":
                for i in o[3]:
                    handed[i] = None
                if ok:
                    admitted[o[1]] = o[3]
                else:
                    for i in o[3]:
                        handed[i] = "circuit breaker open"
                    done.update(o[3])
        elif kind == "finish":
            if r == "invalid":
                pass
            else:
                ids = admitted.pop(o[1], o[4])
                failed = 0 <= o[2] < len(ids)
                record = "F" if failed else "S"
                done.update(ids)
                if failed:
                    for i in ids:
                        handed[i] = o[3]
                if probe == o[1]:
                    if prev == "H" and st != ("O" if failed else "C"):
                        fails.append(("probe", "op %d: probe %s but breaker is %s" % (k, "failed" if failed else "succeeded", st)))
                    probe = None
        elif kind == "succ":
            record = "S"
        elif kind == "fail":
            record = "F"
        if record and probe == "direct":
            if prev == "H" and st != ("O" if record == "F" else "C"):
                fails.append(("probe", "op %d: probe result %s recorded but breaker is %s" % (k, record, st)))
            probe = None
        if record == "S":
            consec = 0
        elif record == "F":
            consec += 1
            last_fail = now
            if prev == "C":
                want = "O" if consec == th else "C"
                if consec <= th and st != want:
                    fails.append(("opens", "op %d: %d consecutive failure(s) with threshold %d, breaker is %s" % (k, consec, th, st)))
                if consec > th:
                    fails.append(("opens", "op %d: breaker still closed before the %dth consecutive failure (threshold %d)" % (k, consec, th)))
        if st != "H":
            probe = None
        if st == "O" and prev != "O":
            t_open = now
        prev = st
    # no loss
    if cfg["dlq"]:
        delivered = set(ans["delivered"])
        dl = {}
        for d in ans["dlq"]:
            if "unreadable" in d:
                fails.append(("dlq", "unreadable DLQ line %r" % d["unreadable"][:80]))
                continue
            dl.setdefault(d["id"], []).append(d)
        pending = set()
        for s in ans["inflight"]:
            pending.update(admitted.get(s, []))
        for i, want in sorted(handed.items()):
            if i in pending or i not in done:
                continue
            if i in delivered:
                continue
            es = dl.get(i, [])
            if not es:
                fails.append(("loss", "event %d handed to the sink is neither delivered nor in the dead-letter queue" % i))
            elif not any(e["connector"] == cfg["name"] and e["error"] == want and e["ts"] and e["type"] == "E%d" % (i % 3) for e in es):
                fails.append(("dlq", "event %d: DLQ entry %s does not name sink %r and error %r" % (i, json.dumps(es[0]), cfg["name"], want)))
    return fails


def shrink(binpath, case, cats):
    ops = list(case["ops"])

    def bad(c):
        return any(c0 in cats for c0, _ in oracle(c, run_impl(binpath, [c])[0]))
    changed = True
    while changed and len(ops) > 1:
        changed = False
        for i in range(len(ops) - 1, -1, -1):
            cand = dict(case, ops=ops[:i] + ops[i + 1:])
            if bad(cand):
                ops = cand["ops"]
                changed = True
                break
    return dict(case, ops=ops)


def build(run):
    hits = coqtools.banned_scan()
    run.oblige("no Admitted/admit/Axiom/Parameter/guard-off anywhere in coq/", not hits, str(hits[:5]))
    ok, lg = coqtools.make(["theories/Breaker/Props.vo", "theories/Breaker/Run.vo"])
    run.oblige("make theories/Breaker/Props.vo", ok, lg[-3000:])
    if ok:
        a = coqtools.audit("C45.v")
        run.axioms |= a["axioms"]
        run.oblige("audit C45.v: %d Check pins, %d/%d Print Assumptions, no axioms" % (a["n_pins"], a["n_print"], a["n_expected"]),
                   a["ok"], a["log"] + str(a["bad_axioms"]))
        run.extra["theorems_audited"] = a["n_print"]
    else:
        coqtools.make(["theories/Breaker/Run.vo"])
    run.checker_cmd = "coqc 8.16.1 (full .vo) theories/Breaker/Props.v; coqc coq/audit/C45.v"
    okb, bindir, blog = harness.build("vp-breaker")
    if not okb:
        run.tie_broken("harness build vp-breaker", blog[-3000:])
        return None
    return os.path.join(bindir, "vp-breaker")


def check(run):
    run.rule = ("operation histories (3-14 ops, thorough up to 20) of up to 3 concurrent senders (send / send_batch of 1-4 events, default and "
                "all-or-nothing inner batch), inner outcomes success / failure at event k, clock steps around the reset timeout, thresholds 1-4, "
                "direct breaker calls; plus every success/failure/wait pattern of one sequential sender up to length 4 (thorough 6) per threshold; "
                "non-trivial = breaker opened and a later request was admitted, or two senders were in flight together; distinct = distinct (cfg, ops)")
    run.trusted += ["Coq 8.16.1 kernel + vm_compute",
                    "hand-written model coq/theories/Breaker/Model.v tied by differential run (per-op result and breaker state, delivered list, DLQ entries in order, counters, in-flight senders)",
                    "cfg(varpulis_verif) clock hook circuit_breaker::verif_clock replaces Instant::now()/elapsed()",
                    "Rust harness harness/crates/breaker (mock inner sink, hand-polled futures: interleaving at the granularity of the breaker's mutex sections), Python driver checks/C45.py (generator, trace oracle)",
                    "strings abstracted to numbers in the model (sink name, error text); DLQ line format / serde_json / file append checked only by the oracle"]
    run.assumptions += ["senders interleave only at await points and breaker calls (the breaker state is behind one mutex; ResilientSink holds no other shared state)",
                        "a sender's future is polled to completion (no cancellation between allow_request and record_*)",
                        "DLQ file writes succeed (write errors are swallowed by DeadLetterQueue by design)",
                        "consecutive_failures (u32) does not overflow"]
    binpath = build(run)
    if binpath is None:
        return
    cases = [dict(c, kind="corpus") for c in CORPUS]
    n = 700 if run.tier == "quick" else 15000
    for _ in range(n):
        cases.append(dict(gen_case(run.rng, 14 if run.tier == "quick" or run.rng.chance(1, 2) else 20), kind="random"))
    for th in (1, 2, 3, 4):
        L = 4 if run.tier == "quick" else 6
        cases += [dict(c, kind="exhaustive") for c in exhaustive_cases(th, 10, L)]
    answers = run_impl(binpath, cases)
    try:
        model = coqtools.coq_eval("C45", IMPORTS, [g_case(c) for c in cases], shard=max(20, min(300, len(cases) // 16 + 1)))
    except RuntimeError as e:
        run.tie_broken("model evaluation (coqc cases)", str(e))
        model = [None] * len(cases)
    n_or = n_corr = 0
    reported = set()
    for k, (case, ans, ms) in enumerate(zip(cases, answers, model)):
        steps = ans.get("steps", [])
        opened = False
        nontrivial = False
        infl = 0
        for o, s in zip(case["ops"], steps):
            if s["st"] == "O":
                opened = True
            if o[0] == "start" and s["r"] == "inflight":
                infl += 1
                if opened or infl >= 2:
                    nontrivial = True
            if o[0] == "finish" and s["r"] != "invalid":
                infl -= 1
        key = (json.dumps(case["cfg"], sort_keys=True), json.dumps(case["ops"])) if nontrivial else None
        run.case(key, sample={"cfg": case["cfg"], "ops": case["ops"], "impl": impl_str(ans)[:300]} if k in (0, 7) else None)
        run.count("kind=" + case["kind"])
        run.count("threshold=%d" % case["cfg"]["threshold"])
        run.count("len=%s" % ("<=6" if len(case["ops"]) <= 6 else "7-12" if len(case["ops"]) <= 12 else ">12"))
        for o, s in zip(case["ops"], steps):
            run.count("op=" + o[0] + ("/batch" if o[0] == "start" and o[2] == "batch" else ""))
            run.count("state_after=" + s["st"])
            if o[0] == "start":
                run.count("start_" + ("admitted" if s["r"] == "inflight" else "rejected"))
        run.count("max_concurrent=%d" % max_conc(case, steps))
        fails = oracle(case, ans)
        if fails:
            n_or += 1
            run.count("oracle_fail")
            cats = sorted({c for c, _ in fails})
            if tuple(cats) not in reported and len(reported) < 4:
                reported.add(tuple(cats))
                small = shrink(binpath, case, cats)
                sa = run_impl(binpath, [small])[0]
                run.violation("; ".join(m for _, m in oracle(small, sa))[:600],
                              {"cfg": small["cfg"], "ops": small["ops"], "implementation": sa,
                               "contradicts": "C45_no_loss / C45_opens_exactly / C45_rejects_until_timeout / C45_single_probe in coq/theories/Breaker/Props.v"})
            continue
        if ms is None:
            continue
        si = impl_str(ans)
        if si != ms:
            n_corr += 1
            if n_corr <= 3:
                run.tie_broken("correspondence Breaker/Model.v vs circuit_breaker.rs/sink.rs/dead_letter.rs on %s" % json.dumps({"cfg": case["cfg"], "ops": case["ops"]}),
                               "impl  %s\n model %s" % (si, ms))
    run.extra["oracle_failures"] = n_or
    run.extra["disagreements"] = n_corr


def max_conc(case, steps):
    cur = best = 0
    for o, s in zip(case["ops"], steps):
        if o[0] == "start" and s["r"] == "inflight":
            cur += 1
            best = max(best, cur)
        if o[0] == "finish" and s["r"] != "invalid":
            cur -= 1
    return best


def replay(run, path):
    r = json.load(open(path))["replay"]
    ok, bindir, lg = harness.build("vp-breaker")
    binpath = os.path.join(bindir, "vp-breaker")
    case = {"cfg": r["cfg"], "ops": r["ops"]}
    ans = run_impl(binpath, [case])[0]
    run.case(("replay",), {"cfg": r["cfg"], "ops": r["ops"]})
    fails = oracle(case, ans)
    if fails:
        run.violation("; ".join(m for _, m in fails)[:600], {"cfg": r["cfg"], "ops": r["ops"], "implementation": ans})
