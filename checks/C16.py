"""C16 — all event-processing entry points produce the same outputs."""
import json
import os

from checks import dispatch_common as D
from vplib import harness

META = {
    "technique": "Coq proof (queue loop = level-wise semantics, induction on the depth budget and the level) + model/impl differential with a replay oracle for the abstract stream pipelines + direct three-way output comparison",
    "design_ref": "DESIGN.md §7 C16",
    "level_text": "Theorems C16_* in coq/theories/Dispatch/Props.v: for every routing table, every family of deterministic stream pipelines, every event sequence and every batch split, Engine::process per event, process_batch and process_batch_sync leave the same stream states, send the same output sequence and hand the same events to the same streams in the same order; the loops always terminate. The model is tied to the Rust by a differential run on every check.",
    "level_note": "Proved about the dispatch layer only (router, pending queue with depth limit, entry points); each stream's pipeline is an abstract deterministic state machine, so 'the shared op implementation behaves the same when called from the sync and async pipeline' is covered by the differential run and the direct output comparison, not by proof. Not modelled: Err returns of pipelines (batch paths would then drop the collected outputs), .to()/.enrich(), watermark/late-data branch of process_inner, metrics.",
}

CORPUS = [
    # DESIGN §10: un-renamed outputs were re-routed in the sync path (10 copies)
    ([{"name": "S1", "kind": "pipe", "src": "A", "ops": [["where", 0]]},
      {"name": "S2", "kind": "pipe", "src": "A", "ops": [["emit"]]}], [("A", 1, 0)], [1]),
    # derived chain: batch paths used to process the whole batch breadth-first (output order)
    ([{"name": "S1", "kind": "pipe", "src": "A", "ops": [["where", 0], ["emit"]]},
      {"name": "S2", "kind": "pipe", "src": "S1", "ops": [["emit"]]}], [("A", 1, 0), ("A", 2, 0)], [2]),
    # a stream that consumes a raw type and a derived one saw them in a different order (different sums)
    ([{"name": "S1", "kind": "pipe", "src": "A", "ops": [["emit"]]},
      {"name": "S2", "kind": "merge", "srcs": ["A", "S1"], "ops": [["window", 2], ["agg"], ["emit"]]}],
     [("A", 1, 0), ("A", 2, 0), ("A", 3, 0)], [3]),
    # .process() outputs were sent un-renamed by the sync path
    ([{"name": "S1", "kind": "pipe", "src": "A", "ops": [["process"]]}], [("A", 1, 0)], [1]),
    # joins were skipped by the sync path
    ([{"name": "S1", "kind": "join", "l": "A", "r": "B"}], [("A", 5, 1), ("B", 7, 1)], [2]),
]


def corpus_cases():
    out = []
    for p, evs, sizes in CORPUS:
        es = [{"type": t, "ts_ns": (i + 1) * 1_000_000_000, "fields": [["x", {"i": str(x)}], ["k", {"i": str(k)}]]}
              for i, (t, x, k) in enumerate(evs)]
        out.append(((p, es, sizes), "corpus"))
    return out


def judge(case, answers):
    """The property text: the emitted output sequence is the same on the three entry points."""
    p, evs, sizes = case
    for a in answers:
        if "panic" in a:
            return ["implementation panicked: " + a["panic"]]
        if not D.answer_ok(a):
            return ["entry point returned an error: " + json.dumps(a)[:300]]
    it = D.Interner(e["ts_ns"] for e in evs)
    outs = [D.canon_out(it, D.all_out(a)) for a in answers]
    fails = []
    for m, o in zip(D.MODES[1:], outs[1:]):
        if o != outs[0]:
            fails.append("outputs differ: per-event %s vs %s %s (batches %s)" % (
                [D.short_event(e) for e in D.all_out(answers[0])], m,
                [D.short_event(e) for e in D.all_out(answers[D.MODES.index(m)])], sizes))
    return fails


def replay_obj(case, answers, fails):
    p, evs, sizes = case
    return {"vpl": D.vpl_program(p), "program": p, "events": evs, "batch_sizes": sizes,
            "outputs": {m: [D.short_event(e) for e in D.all_out(a)] if "steps" in a else a for m, a in zip(D.MODES, answers)},
            "fails": fails, "contradicts": "C16_entry_points_agree (coq/theories/Dispatch/Props.v)"}


def check(run):
    run.rule = ("programs of 1..5 streams from a grammar (pipelines of where/window/aggregate/distinct/limit/emit/process, sequences, joins, merges; "
                "raw, derived, forward and own-name sources; shapes free/chain/diamond/no-emit) x 1..10 random events x random batch split, run "
                "through process, process_batch and process_batch_sync; non-trivial = at least one delivery at depth >= 1 or >= 2 streams reached, "
                "and at least one output; distinct = distinct (program, events, split)")
    binpath = D.build_all(run, "C16.v")
    if binpath is None:
        return
    rng = run.rng
    cases = corpus_cases()
    n = 150 if run.tier == "quick" else 3000
    for _ in range(n):
        p, shape = D.gen_program(rng)
        evs = D.gen_events(rng, p)
        cases.append(((p, evs, D.gen_split(rng, len(evs))), shape))
    answers = D.run_three(binpath, [c for c, _ in cases])
    exprs = []
    impls = []
    n_oracle = 0
    for (case, shape), ans in zip(cases, answers):
        D.count_case(run, case, shape, ans)
        fails = judge(case, ans)
        if fails:
            n_oracle += 1
            run.count("oracle_fail")
            if n_oracle <= 3:
                def still(c):
                    return bool(judge(c, D.run_three(binpath, [c])[0]))
                small = D.shrink_case(case, still)
                sa = D.run_three(binpath, [small])[0]
                run.violation("; ".join(judge(small, sa))[:600], replay_obj(small, sa, judge(small, sa)))
        if all(D.answer_ok(a) for a in ans) and max(len(D.all_trace(a)) for a in ans) > D.MAX_TRACE:
            run.count("model-skipped(trace too long)")
            run.case(None)
        elif all(D.answer_ok(a) for a in ans):
            impl, ex, tbl = D.model_exprs_three(case, ans)
            if tbl.conflicts:
                run.tie_broken("stream pipeline is not a deterministic function of its delivery history", json.dumps(tbl.conflicts[0][1])[:500])
            impls.append((case, impl))
            exprs += ex
            tr = D.all_trace(ans[0])
            nontrivial = None
            if D.all_out(ans[0]) and (any(d["depth"] >= 1 for d in tr) or len({d["stream"] for d in tr}) >= 2):
                nontrivial = json.dumps([case[0], case[1], case[2]], sort_keys=True)
            run.case(nontrivial, sample={"vpl": D.vpl_program(case[0]), "events": [D.short_event(e) for e in case[1]], "batches": case[2],
                                         "out": [D.short_event(e) for e in D.all_out(ans[0])]} if len(run.samples) < 3 and nontrivial else None)
        else:
            run.case(None)
    run.extra["oracle_failures"] = n_oracle
    model = D.eval_model(run, "C16", exprs)
    nd = 0
    for i, (case, impl) in enumerate(impls):
        for j, m in enumerate(D.MODES):
            mo = model[3 * i + j]
            if mo is not None and mo != impl[j]:
                nd += 1
                if nd <= 3:
                    run.tie_broken("correspondence Dispatch/Model.v vs Engine::%s on\n%s events %s batches %s" % (
                        {"event": "process", "batch": "process_batch", "sync": "process_batch_sync"}[m],
                        D.vpl_program(case[0]), [D.short_event(e) for e in case[1]], case[2]), D.first_diff(impl[j], mo))
    run.extra["disagreements"] = nd


def replay(run, path):
    r = json.load(open(path))["replay"]
    ok, bindir, lg = harness.build("vp-dispatch")
    binpath = os.path.join(bindir, "vp-dispatch")
    case = (r["program"], r["events"], r["batch_sizes"])
    ans = D.run_three(binpath, [case])[0]
    fails = judge(case, ans)
    run.case(("replay",), {"vpl": r["vpl"]})
    run.case(("replay2",))
    if fails:
        run.violation("; ".join(fails)[:600], replay_obj(case, ans, fails))
