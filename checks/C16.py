"""C16 — all event-processing entry points produce the same outputs."""
import json
import os

from checks import dispatch_common as D
from vplib import harness

META = {
    "technique": "Coq proof (queue loop = level-wise semantics, induction on the depth budget and the level) + model/impl differential with a replay oracle for the abstract stream pipelines + direct three-way output comparison",
    "design_ref": "DESIGN.md §7 C16",
    "level_text": "Theorems C16_* in coq/theories/Dispatch/Props.v: for every routing table, every family of deterministic stream pipelines, every event sequence and every batch split, Engine::process per event, process_batch and process_batch_sync leave the same stream states, send the same output sequence and hand the same events to the same streams in the same order; the loops always terminate. The model is tied to the Rust by a differential run on every check.",
    "level_note": "Proved about the dispatch layer only (router, pending queue with depth limit, entry points); each stream's pipeline is an abstract deterministic state machine, so 'the shared op implementation behaves the same when called from the sync and async pipeline' is covered by the differential run and the direct output comparison, not by proof. Not modelled: Err returns of pipelines (batch paths would then drop the collected outputs), .to()/.enrich(), watermark/late-data branch of process_inner, metrics.",
}

CORPUS = [
    # DESIGN §10: un-renamed outputs were re-routed in the sync path (10 copies)
    ([{"name": "S1", "kind": "pipe", "src": "A", "ops": [["where", 0]]},
      {"name": "S2", "kind": "pipe", "src": "A", "ops": [["emit"]]}], [("A", 1, 0)], [1]),
    # derived chain: batch paths used to process the whole batch breadth-first (output order)
    ([{"name": "S1", "kind": "pipe", "src": "A", "ops": [["where", 0], ["emit"]]},
      {"name": "S2", "kind": "pipe", "src": "S1", "ops": [["emit"]]}], [("A", 1, 0), ("A", 2, 0)], [2]),
    # a stream that consumes a raw type and a derived one saw them in a different order (different sums)
    ([{"name": "S1", "kind": "pipe", "src": "A", "ops": [["emit"]]},
      {"name": "S2", "kind": "merge", "srcs": ["A", "S1"], "ops": [["window", 2], ["agg"], ["emit"]]}],
     [("A", 1, 0), ("A", 2, 0), ("A", 3, 0)], [3]),
    # .process() outputs were sent un-renamed by the sync path
    ([{"name": "S1", "kind": "pipe", "src": "A", "ops": [["process"]]}], [("A", 1, 0)], [1]),
    # joins were skipped by the sync path
    ([{"name": "S1", "kind": "join", "l": "A", "r": "B"}], [("A", 5, 1), ("B", 7, 1)], [2]),
]


def corpus_cases():
    return [((p, D.mk_events(evs), sizes), "corpus") for p, evs, sizes in CORPUS]


def judge(case, answers):
    """The property text: the emitted output sequence is the same on the three entry points."""
    p, evs, sizes = case
    for a in answers:
        if "panic" in a:
            return ["implementation panicked: " + a["panic"]]
        if not D.answer_ok(a):
            return ["entry point returned an error: " + json.dumps(a)[:300]]
    it = D.Interner(e["ts_ns"] for e in evs)
    outs = [D.canon_out(it, D.all_out(a)) for a in answers]
    fails = []
    for m, o in zip(D.MODES[1:], outs[1:]):
        if o != outs[0]:
            fails.append("outputs differ: per-event %s vs %s %s (batches %s)" % (
                [D.short_event(e) for e in D.all_out(answers[0])], m,
                [D.short_event(e) for e in D.all_out(answers[D.MODES.index(m)])], sizes))
    return fails


CONTRA = "C16_entry_points_agree (coq/theories/Dispatch/Props.v)"


def check(run):
    run.rule = ("programs of 1..5 streams from a grammar (pipelines of where/window/aggregate/distinct/limit/emit/process, sequences, joins, merges; "
                "raw, derived, forward and own-name sources; shapes free/chain/diamond/no-emit) x 1..10 random events x random batch split, run "
                "through process, process_batch and process_batch_sync; non-trivial = at least one delivery at depth >= 1 or >= 2 streams reached, "
                "and at least one output; distinct = distinct (program, events, split)")
    binpath = D.build_all(run, "C16.v")
    if binpath is None:
        return
    rng = run.rng
    cases = corpus_cases()
    n = 130 if run.tier == "quick" else 3000
    for _ in range(n):
        p, shape = D.gen_program(rng)
        evs = D.gen_events(rng, p)
        cases.append(((p, evs, D.gen_split(rng, len(evs))), shape))
    D.three_way_check(run, binpath, cases, judge, "C16", CONTRA)


def replay(run, path):
    D.replay_three(run, path, judge, CONTRA)
