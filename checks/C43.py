"""C43 — language-server requests never crash and report valid ranges (PARTIAL by design)."""
import json
import os
import re
import time

from checks import parse_common as P
from checks import text_common as T
from vplib import coqtools, harness

BIN = "vp-lsp"
META = {
    "technique": "Coq proof about an executable model of the language server's position arithmetic (byte offset -> line/column, error end column, "
                 "range construction for every ParseError shape, word under the cursor, completion prefix) + model/implementation differential through "
                 "cfg(varpulis_verif) hooks + exploration: mutated documents with multi-byte characters x all positions through the real handlers "
                 "under catch_unwind in a child process",
    "design_ref": "DESIGN.md §7 C43",
    "level_text": "proof",
    "level_note": "PARTIAL. Proved (Lsp/Props.v, all documents / positions / error values): the modelled functions never panic and every range built "
                  "from a parse error, a semantic diagnostic span or a definition/reference span lies within the document (for Located errors under the "
                  "bounds that C41 proves for the parser). NOT modelled: the handlers' own text scans (completion context detection, semantic tokenizer, "
                  "document symbols, hover documentation lookup), the parser and the validator behind diagnostics/definition/references - for those "
                  "'no panic' and 'ranges inside the document' are EXPLORATION only (all handlers x all positions on mutated documents).",
}
IMPORTS = ("From Coq Require Import String.\nFrom VP Require Import Base.Tactics Base.Render Text.Str Lsp.Model Lsp.Run.\n"
           "Open Scope string_scope.\nOpen Scope N_scope.\n")
TIME_LIMIT = 120.0


def u16len(s):
    return len(s.encode("utf-16-le")) // 2


def all_positions(text, limit=None, rng=None):
    """every (line, character) within and just past the document: lines 0..last+1, characters 0..utf16 length+2"""
    lines = text.split("\n")
    ps = [[i, c] for i, l in enumerate(lines + [""]) for c in range(u16len(l) + 3)]
    if limit is not None and len(ps) > limit:
        ps = rng.shuffle(ps)[:limit]
    return ps


def range_problems(text, r):
    """independent judgement of "the range lies within the document": both ends on an existing line (lines are
    separated by \\n; the text after the last newline is a line) and not beyond the end of that line, measured in
    UTF-16 code units as the protocol defines `character` (a trailing \\r counts as part of the line)"""
    lines = text.split("\n")
    out = []
    for (l, c, which) in ((r[0], r[1], "start"), (r[2], r[3], "end")):
        if l >= len(lines):
            out.append("%s line %d but the document has %d lines" % (which, l, len(lines)))
        elif c > u16len(lines[l]):
            out.append("%s character %d beyond the %d UTF-16 units of line %d" % (which, c, u16len(lines[l]), l))
    return out


def judge(text, ans):
    """list of (kind, handler, message)"""
    out = []
    if "timeout" in ans:
        return [("timeout", "request", "no answer within %.0f s" % ans["timeout"])]
    if "abort" in ans:
        return [("abort", "request", "the server process died (exit status %s)" % ans["abort"])]
    for h in ("diagnostics", "semantic_tokens", "document_symbols", "hover", "completion", "definition", "references"):
        a = ans.get(h, {})
        if "panic" in a:
            out.append(("panic", h, "%s panicked: %s" % (h, a["panic"][:160])))
        for p in a.get("panics", []):
            out.append(("panic", h, "%s at line %d character %d panicked: %s" % (h, p[0], p[1], p[2][:160])))
        for r in a.get("ranges", []):
            for m in range_problems(text, r):
                out.append(("range", h, "%s reports range %s: %s" % (h, r, m)))
    if ans.get("panics", 0) > 0 and not any(k == "panic" for k, _, _ in out):
        out.append(("panic", "parse", "a panic was raised on a helper thread while the handlers ran"))
    return out


# ---------------------------------------------------------------- documents
TARGETED = [
    "",
    "é",
    "x = \"日本\" )\n",                         # error column after multi-byte text: column used as byte index (was a panic in diagnostics)
    "stream S = A.from(\u3000Mq, é",          # completion inside .from( with multi-byte white space (was a panic)
    "stream S = A.to( Mq, topic",
    "stream X = ",                            # error at end of line: end column one past the line
    "x = (((((((((((((((((((((((((((1\n",     # InvalidToken: end = col + 10
    "stream 日 = A\n",                         # document symbol with byte length as end character
    "let x = 😀\n",
    "Éa = 1\nstream É = Éa\n",
    "# é comment 日本\n",
    "stream S = A\r\n    .where(x > 1)\r\n",
    "event Trade:\n    price: float\nstream F = Trade\n    .where(price > 100)\n    .emit()\n",
    "fn f():\n    if a:\n        return 1\n)\n",
    "stream S = A\n    .where(日本 > 1)\n",
    "connector Mq = mqtt(host: \"h\")\nstream S = A.from(Mq, ",
    "@2024-01-01T00:00:00Z é\n",
    "x = 'é\n",
    "stream S = A\n    .window(5m",
    "x.\n  y@\n    z:",
]


def gen_docs(run, examples):
    rng = run.rng
    n = 55 if run.tier == "quick" else 3000
    docs = [("targeted", d) for d in TARGETED]
    for _ in range(n):
        name, text = rng.choice(examples)
        s = P.fragments(text, rng, rng.choice([120, 250, 400]))
        if len(s) > 500:
            s = s[:rng.range(200, 500)]
        labs = []
        # at least one multi-byte ingredient in two documents out of three
        if rng.chance(2, 3):
            for _ in range(rng.range(1, 3)):
                i = rng.below(len(s) + 1)
                s = s[:i] + rng.choice(P.MB + ["é", "日本語", "😀", "ü", "\u3000"]) + s[i:]
            labs.append("multibyte")
        for _ in range(rng.choice([0, 1, 1, 2])):
            s, lab = (P.mutate_bytes(s, rng) if rng.chance(1, 5) else P.mutate_grammar(s, rng))
            labs.append(lab)
        # definition / references re-parse the document for every position: keep declaration loops small
        # (expansion limits and parse time are C41's subject)
        if any(l.startswith("nested-loops") for l in labs) or len(s) > 900 or re.search(r"\.\.=?\s*-?\d{3,}", s):
            continue
        docs.append(("+".join(labs) or "fragment", s))
    return docs


ERR_SHAPES = ["Located", "UnexpectedToken", "UnexpectedEof", "InvalidToken", "InvalidNumber", "UnterminatedString", "Custom"]


def gen_fn_request(text, rng):
    nbytes = len(text.encode("utf-8"))
    lines = text.split("\n")
    offsets = list(range(nbytes + 3)) if nbytes <= 120 else sorted({rng.below(nbytes + 3) for _ in range(60)} | {0, nbytes})
    positions = all_positions(text, 70, rng)
    errors = []
    for _ in range(14):
        v = rng.choice(ERR_SHAPES)
        if v == "Located":
            # mostly what the parser can report (C41: 1 <= line <= lines, 1 <= column <= characters + 1), sometimes anything
            if rng.chance(4, 5):
                l = rng.range(1, len(lines))
                errors.append({"v": v, "line": l, "column": rng.range(1, len(lines[l - 1].rstrip("\r")) + 1), "wellformed": True})
            else:
                errors.append({"v": v, "line": rng.below(len(lines) + 3), "column": rng.below(40), "wellformed": False})
        elif v == "UnexpectedToken":
            errors.append({"v": v, "position": rng.below(nbytes + 4), "found": rng.choice(["", "x", "foo_bar", "日本", "é", "a" * 30])})
        elif v in ("InvalidToken", "UnterminatedString"):
            errors.append({"v": v, "position": rng.below(nbytes + 4)})
        elif v == "Custom":
            a, b = rng.below(nbytes + 4), rng.below(nbytes + 4)
            errors.append({"v": v, "start": min(a, b), "end": max(a, b) if rng.chance(9, 10) else min(a, b)})
        else:
            errors.append({"v": v})
    spans = [[rng.below(nbytes + 3), rng.below(nbytes + 3)] for _ in range(8)]
    return {"kind": "fns", "text": text, "offsets": offsets, "positions": positions, "errors": errors, "spans": spans}


def g_perr(e):
    v = e["v"]
    if v == "Located":
        return "(ELocated %d %d)" % (e["line"], e["column"])
    if v == "UnexpectedToken":
        return "(EUnexpectedToken %d %d)" % (e["position"], len(e["found"]))
    if v == "UnexpectedEof":
        return "EUnexpectedEof"
    if v == "InvalidToken":
        return "(EInvalidToken %d)" % e["position"]
    if v == "UnterminatedString":
        return "(EUnterminatedString %d)" % e["position"]
    if v == "Custom":
        return "(ECustom %d %d)" % (e["start"], e["end"])
    return "ENoPosition"


def render_impl(a):
    def cell(x, f):
        return "PANIC" if isinstance(x, dict) and "panic" in x else f(x)
    word = lambda w: "-" if w is None else "w" + ".".join(str(ord(c)) for c in w)
    rng4 = lambda r: "%d,%d,%d,%d" % tuple(r)
    return {
        "p2lc": ";".join(cell(x, lambda p: "%d,%d" % tuple(p)) for x in a["p2lc"]),
        "b2p": ";".join(cell(x, lambda p: "%d,%d" % tuple(p)) for x in a["b2p"]),
        "word_nav": ";".join(cell(x, word) for x in a["word_nav"]),
        "word_hover": ";".join(cell(x, word) for x in a["word_hover"]),
        "endcol": ";".join(cell(x, str) for x in a["endcol"]),
        "ranges": ";".join(cell(x, rng4) for x in a["ranges"]),
        "spans": ";".join(cell(x, rng4) for x in a["spans"]),
    }


def check(run):
    run.rule = ("documents = targeted multi-byte documents + fragments of the example programs with inserted multi-byte characters (2-, 3-, 4-byte, "
                "multi-byte white space, marker characters) and 0-2 grammar-aware / byte-level mutations; exploration: every handler (diagnostics, hover, "
                "completion, definition, references, semantic tokens, document symbols) at every position within and just past the document (lines "
                "0..last+1, characters 0..length+2; 170 (thorough 1500) sampled positions for documents with more); correspondence through the hooks: "
                "position_to_line_col / byte_offset_to_position at every byte offset (or 60 sampled), word under the cursor (both copies), "
                "get_error_end_column at <= 70 positions, error_to_diagnostic range for 14 error values of all shapes (Located mostly as the parser can "
                "report it), span_to_location for 8 spans, plus the range of the real diagnostic of the document against the model applied to the real "
                "parse error; non-trivial = document with a non-ASCII character on which some handler answers; distinct = distinct document text")
    run.trusted += ["Coq 8.16.1 kernel + vm_compute",
                    "hand-written model coq/theories/Lsp/Model.v (+ Text/Str.v) tied by differential run through cfg(varpulis_verif) hooks in varpulis-lsp",
                    "char::is_alphanumeric is a parameter of the model; the check instantiates it with the implementation's answer for the characters of each document",
                    "NOT MODELLED (exploration only): completion context detection, semantic tokenizer, document symbols, hover documentation, parser and validator",
                    "Rust harness harness/crates/lsp, Python driver checks/C43.py + checks/parse_common.py (generators, UTF-16 range oracle, child-process time limit)"]
    run.assumptions += ["`usize as u32` casts of line/column numbers do not truncate (documents below 2^32 lines / columns)",
                        "'within the document' is measured per line in UTF-16 code units (LSP default position encoding); lines are separated by \\n"]
    coqtools.prove(run, ["theories/Lsp/Props.vo", "theories/Lsp/Run.vo"], "C43.v")
    okb, bindir, blog = harness.build(BIN)
    if not okb:
        run.tie_broken("harness build " + BIN, blog[-3000:])
        return
    examples = P.load_examples()
    child = P.Child(os.path.join(bindir, BIN))
    try:
        docs = gen_docs(run, examples)
        t0 = time.time()
        explore(run, child, docs)
        t1 = time.time()
        correspond(run, child, docs)
        run.extra["phase_seconds"] = {"exploration": round(t1 - t0, 1), "correspondence": round(time.time() - t1, 1)}
    finally:
        child.close()
    run.extra["child_restarts"] = child.restarts


def explore(run, child, docs):
    rng = run.rng
    nviol = {}
    for lab, text in docs:
        ps = all_positions(text, 170 if run.tier == "quick" else 1500, rng)
        ans = child.ask({"kind": "doc", "text": text, "positions": ps}, TIME_LIMIT)
        for l in lab.split("+"):
            run.count("doc:" + l)
        run.count("positions", len(ps))
        answered = [h for h in ("diagnostics", "semantic_tokens", "document_symbols", "hover", "completion", "definition", "references")
                    if ans.get(h, {}).get("ranges") or ans.get(h, {}).get("answers")]
        for h in answered:
            run.count("answers:" + h)
        nonascii = any(ord(c) > 127 for c in text)
        run.count("non-ascii" if nonascii else "ascii-only")
        run.case(text if (nonascii and answered) else None,
                 sample={"document": text[:200], "positions": len(ps), "diagnostics": ans.get("diagnostics")} if nonascii and answered and len(run.samples) < 3 else None)
        probs = judge(text, ans)
        if probs:
            key = "%s:%s" % (probs[0][0], probs[0][1])
            nviol[key] = nviol.get(key, 0) + 1
            run.count("oracle_fail:" + key)
            if nviol[key] <= 1 and sum(1 for v in nviol.values() if v) <= 6:
                small, p2 = shrink(text, child, probs[0][0], probs[0][1])
                run.violation("; ".join(m for _, _, m in p2[:3])[:600],
                              {"kind": "doc", "text": small, "original_text": text, "mutation": lab, "problems": [m for _, _, m in p2[:6]],
                               "contradicts": "property text (exploration half); for diagnostics / definition / reference ranges also C43_range_in_doc (coq/theories/Lsp/Props.v)"})
    run.extra["oracle_failures"] = nviol


def shrink(text, child, kind, handler):
    def probs_of(t):
        ans = child.ask({"kind": "doc", "text": t, "positions": all_positions(t)[:3000]}, TIME_LIMIT)
        return [p for p in judge(t, ans) if p[0] == kind and p[1] == handler]
    cur = text
    lines = T.shrink_list(cur.split("\n"), lambda ls: bool(probs_of("\n".join(ls))), max_rounds=80)
    cur = "\n".join(lines)
    if len(cur) <= 120:
        cur = "".join(T.shrink_list(list(cur), lambda cs: bool(probs_of("".join(cs))), max_rounds=250))
    return cur, (probs_of(cur) or [(kind, handler, "(not reproduced after shrinking)")])


def correspond(run, child, docs):
    rng = run.rng
    exprs, impl, reqs = [], [], []
    ndis = 0
    nhook = [0, 0]
    for lab, text in docs:
        if len(text) > 600:
            continue
        nonascii = sorted({c for c in text if ord(c) > 127})
        al = child.ask({"kind": "alnum", "text": "".join(nonascii)}, TIME_LIMIT)
        extra = [ord(c) for c, b in zip(nonascii, al.get("ok", [])) if b]
        req = gen_fn_request(text, rng)
        # the real diagnostic of the document, against the model applied to the real parse error
        pe = child.ask({"kind": "parse_error", "text": text}, TIME_LIMIT)
        dg = child.ask({"kind": "diag", "text": text}, TIME_LIMIT)
        real = None
        if pe.get("err") and "ok" in dg and len(dg["ok"]) == 1:
            real = (pe["err"], "%d,%d,%d,%d" % tuple(dg["ok"][0]["range"]))
            req["errors"].append(dict(pe["err"], real=True))
            run.count("real-diagnostic:" + pe["err"]["v"])
        a = child.ask(req, TIME_LIMIT)
        if "p2lc" not in a:
            run.tie_broken("harness fns request", json.dumps(a)[:300])
            return
        r = render_impl(a)
        if real is not None:
            got = r["ranges"].split(";")[-1]
            if got != real[1]:
                ndis += 1
                run.tie_broken("get_diagnostics range differs from error_to_diagnostic on the parse error, document %r" % text[:200], "%s vs %s" % (real[1], got))
        for e in req["errors"]:
            run.count("error-shape:" + e["v"] + ("" if e.get("wellformed", True) else "(arbitrary)"))
        exprs.append("doc_case [%s] %s [%s] [%s] [%s] [%s]" % (
            ";".join(map(str, extra)), T.g_cps(text), ";".join(map(str, req["offsets"])),
            ";".join("(%d,%d)" % tuple(p) for p in req["positions"]), ";".join(g_perr(e) for e in req["errors"]),
            ";".join("(%d,%d)" % tuple(s) for s in req["spans"])))
        impl.append((text, r, req))
    try:
        model = coqtools.coq_eval("C43", IMPORTS, exprs, shard=max(8, len(exprs) // 16 + 1))
    except RuntimeError as e:
        run.tie_broken("model evaluation (coqc cases)", str(e))
        return
    for (text, r, req), m in zip(impl, model):
        run.case(None)
        parts = m.split("|")
        diffs = []
        for name, mi in (("p2lc", 0), ("b2p", 0), ("word_nav", 1), ("word_hover", 1), ("endcol", 2), ("ranges", 3), ("spans", 4)):
            if r[name] != parts[mi]:
                xs, ys = r[name].split(";"), parts[mi].split(";")
                k = next((i for i, (x, y) in enumerate(zip(xs, ys)) if x != y), 0)
                diffs.append("%s[%d]: impl %s model %s" % (name, k, xs[k] if k < len(xs) else "?", ys[k] if k < len(ys) else "?"))
        if diffs:
            ndis += 1
            if ndis <= 3:
                run.tie_broken("correspondence Lsp/Model.v vs varpulis-lsp on document %r" % text[:200], "\n".join(diffs)[:1500] + "\nrequest: " + json.dumps(req)[:600])
        # oracle on the hook results themselves: ranges of well-formed errors and of spans lie in the document
        for e, cellr in zip(req["errors"], r["ranges"].split(";")):
            if cellr != "PANIC" and e.get("wellformed", True):
                for msg in range_problems(text, [int(x) for x in cellr.split(",")]):
                    run.count("oracle_fail:hook-range")
                    nhook[0] += 1
                    if nhook[0] > 3:
                        continue
                    run.violation("error_to_diagnostic(%s) gives range %s: %s" % (json.dumps(e), cellr, msg),
                                  {"kind": "fns", "text": text, "error": e, "range": cellr, "contradicts": "C43_range_in_doc"})
        if "PANIC" in json.dumps(r):
            run.count("oracle_fail:hook-panic")
            nhook[1] += 1
            if nhook[1] <= 3:
                run.violation("a position function panicked: %s" % json.dumps(r)[:300], {"kind": "fns", "request": req, "contradicts": "C43_pos_no_panic"})
    run.extra["disagreements"] = ndis
    run.extra["correspondence_documents"] = len(impl)


def replay(run, path):
    r = json.load(open(path))["replay"]
    okb, bindir, blog = harness.build(BIN)
    child = P.Child(os.path.join(bindir, BIN))
    try:
        if r.get("kind") == "doc":
            text = r["text"]
            ans = child.ask({"kind": "doc", "text": text, "positions": all_positions(text)[:3000]}, TIME_LIMIT)
            probs = judge(text, ans)
            run.case(("replay",), {"document": text[:200]})
            if probs:
                run.violation("; ".join(m for _, _, m in probs[:3])[:600], dict(r, problems=[m for _, _, m in probs[:6]]))
        else:
            run.tie_broken("replay of a hook-level record", "re-run the check")
    finally:
        child.close()
