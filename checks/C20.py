"""C20 — checkpoints survive serialisation unchanged."""
import json
import os

from checks import codec_common as C
from vplib import coqtools, harness

META = {
    "technique": "Coq proof (structural induction over values / events) of the round trip through an executable model of the checkpoint "
                 "value and event codec at JSON-tree level; model tied to the code by a differential run (serialised tree, restored events, "
                 "reading of mutated trees) and an independent equality oracle; engine-level checkpoints judged by the oracle only",
    "level_text": "proof about model + differential correspondence + independent oracle on the implementation",
    "level_note": "Proved: value <-> SerializableValue <-> JSON tree round trip for every value with in-range integers (all floats, NaN up to "
                  "payload; non-finite floats are written as named strings since fix b24e948), event round trip for every event whose timestamp is a whole millisecond, lists of events (checkpoint contents); "
                  "refuted by witness for sub-millisecond timestamps (known finding). Modelled, not proved: the JSON text layer "
                  "(serde_json printing/parsing, codec::is_json sniffing) is a Section pair print/parse with the contract parse(print t) = "
                  "Some t — the driver parses the real text with its own parser and compares trees, floats by bits; HashMap iteration order "
                  "(event fields compared as maps). Engine checkpoints (windows, SASE runs, distinct, ...) are covered by the oracle only "
                  "(same JSON tree after serialise/deserialise, restore + re-checkpoint gives the same tree). MessagePack (feature binary-codec) "
                  "is not compiled and not covered.",
    "design_ref": "DESIGN.md §7 C20",
}

CLASS_SUBMS = "event-timestamp-sub-millisecond"

PROGRAMS = [
    "stream S = A\n    .window(5)\n    .aggregate(total: sum(x))\n",
    "stream S = A\n    .window(10s)\n    .aggregate(total: sum(x))\n",
    "stream S = A\n    .partition_by(k)\n    .window(session: 3s)\n    .aggregate(c: count())\n    .emit(c: c)\n",
    "stream S = A\n    .partition_by(k)\n    .window(3)\n    .aggregate(c: count())\n    .emit(c: c)\n",
    "stream S = A as a\n    -> B as b\n    .within(60s)\n    .emit(x: a.x, y: b.x)\n",
    "stream S = A\n    .distinct(k)\n    .emit(k: k)\n",
]


# ------------------------------------------------------------------ generation
def sv_tree(v):
    """generator-side encoding of a value as a SerializableValue tree (starting point for mutations)"""
    k = v[0]
    o = lambda name, t: ("o", [(C.cps(name), t)])
    if k == "N":
        return ("s", C.cps("Null"))
    if k == "B":
        return o("Bool", ("b", v[1]))
    if k == "I":
        return o("Int", ("i", v[1]))
    if k == "F":
        if C.is_finite_bits(v[1]):
            return o("Float", ("d", v[1]))
        return o("Float", ("s", C.cps("NaN" if C.is_nan_bits(v[1]) else ("Infinity" if v[1] < (1 << 63) else "-Infinity"))))
    if k == "S":
        return o("String", ("s", v[1]))
    if k == "T":
        return o("Timestamp", ("i", v[1]))
    if k == "D":
        return o("Duration", ("i", v[1]))
    if k == "A":
        return o("Array", ("a", [sv_tree(x) for x in v[1]]))
    if k == "M":
        return o("Map", ("a", [("a", [("s", kk), sv_tree(x)]) for kk, x in v[1]]))
    raise ValueError(k)


def mutate(rng, t, depth=0):
    """one random local change somewhere in the tree"""
    k = t[0]
    if k == "o" and t[1] and rng.chance(2, 3) and depth < 6:
        i = rng.below(len(t[1]))
        kv = list(t[1])
        kv[i] = (kv[i][0], mutate(rng, kv[i][1], depth + 1))
        return ("o", kv)
    if k == "a" and t[1] and rng.chance(2, 3) and depth < 6:
        i = rng.below(len(t[1]))
        l = list(t[1])
        l[i] = mutate(rng, l[i], depth + 1)
        return ("a", l)
    c = rng.below(12)
    if c == 0:
        return ("n",)
    if c == 1:
        return ("i", rng.choice(C.INTS + [C.U64_MAX, C.I64_MAX + 1, 1 << 63, -5, 7]))
    if c == 2:
        return ("d", C.f2b(rng.choice(C.FLOATS_FINITE)))
    if c == 3:
        return ("s", C.cps(rng.choice(["NaN", "Infinity", "-Infinity", "Null", "Int", "nan", ""])))
    if c == 4:
        return ("b", rng.chance(1, 2))
    if c == 5 and k == "o" and t[1]:
        # rename the variant / a key
        kv = list(t[1])
        kv[0] = (C.cps(rng.choice(["Int", "Float", "Null", "Bool", "String", "Timestamp", "Duration", "Array", "Map", "int", "Other"])), kv[0][1])
        return ("o", kv)
    if c == 6 and k == "o" and t[1]:
        return ("o", list(t[1]) + [t[1][0]])          # duplicate key
    if c == 7 and k == "a":
        return ("a", list(t[1]) + [("s", C.cps("Null"))])
    if c == 8 and k == "a" and t[1]:
        return ("a", list(t[1])[:-1])
    if c == 9:
        return ("o", [(C.cps("Null"), ("n",))])
    if c == 10:
        return ("a", [])
    return ("o", [])


def sev_tree(e):
    ms = e["ts"] // 1_000_000
    return ("o", [(C.cps("event_type"), ("s", e["type"])), (C.cps("timestamp_ms"), ("i", ms)),
                  (C.cps("fields"), ("o", [(k, sv_tree(v)) for k, v in e["fields"]]))])


def gen_event_tree(rng):
    e = C.gen_event(rng, True, False)
    t = sev_tree(e)
    kv = list(t[1])
    c = rng.below(10)
    if c == 0:
        kv = rng.shuffle(kv)
    elif c == 1:
        kv.append((C.cps("extra"), ("i", 1)))
    elif c == 2:
        kv.append(kv[rng.below(3)])
    elif c == 3:
        del kv[rng.below(3)]
    elif c == 4:
        kv[1] = (kv[1][0], rng.choice([("d", C.f2b(5.0)), ("i", C.U64_MAX), ("i", C.I64_MAX + 1), ("i", -9_000_000_000_000), ("s", C.cps("5")), ("n",)]))
    elif c == 5 and kv[2][1][1]:
        f = list(kv[2][1][1])
        f.append((f[0][0], ("o", [(C.cps("Int"), ("i", 77))])))       # duplicate field key: the later one wins
        kv[2] = (kv[2][0], ("o", f))
    elif c == 6:
        # a random local change inside the fields (the timestamp is handled above: values outside chrono's range are
        # replaced by the wall clock in From<SerializableEvent>, which the model does not follow)
        kv[2] = (kv[2][0], mutate(rng, kv[2][1]))
    return ("o", kv)


CORPUS_EVENTS = [
    # DESIGN §7 C20 expected defects
    [{"type": C.cps("A"), "ts": 0, "fields": [(C.cps("x"), ("F", C.NAN_BITS))]}],
    [{"type": C.cps("A"), "ts": 0, "fields": [(C.cps("x"), ("F", C.INF_BITS)), (C.cps("y"), ("A", [("F", C.NINF_BITS), ("M", [(C.cps("k"), ("F", 0xFFF8000000000001))])]))]}],
    [{"type": C.cps("A"), "ts": 1_700_000_000_123_456_789, "fields": [(C.cps("x"), ("I", 1))]}],
    [{"type": C.cps("A"), "ts": -1, "fields": []}],
    [{"type": C.cps("Ünï\U0001F600"), "ts": 1_000_000, "fields": [(C.cps("s"), ("S", C.cps("q\"\\\n\u0000\U0001F600"))), (C.cps("m"), ("M", [(C.cps("k"), ("A", [("N",), ("B", True)]))])),
                                                                     (C.cps("t"), ("T", -5)), (C.cps("d"), ("D", C.U64_MAX)), (C.cps("i"), ("I", C.I64_MIN))]}],
]
CORPUS_TREES = ['{"Float":null}', '{"Float":5}', '"Null"', '{"Null":null}', '{"Int":1.0}', '{"Int":9223372036854775808}', '{"Duration":-1}',
                '{"Map":[["k",{"Int":1}],["k",{"Int":2}]]}', '{"Int":1,"Int":2}', '{"Float":18446744073709551615}', '"Int"', '{"Float":"NaN"}',
                '{"Float":"-Infinity"}', '{"Float":"inf"}', '{"Float":9007199254740993}', '{"Float":-9223372036854775807}', '{"Array":[{"Float":"Infinity"},"Null"]}']


def judge_events(evs, ans):
    """oracle: the checkpoint reads back, and the restored events equal the originals. -> (failures, classes)"""
    if "panic" in ans:
        return ["implementation panicked: " + ans["panic"]], []
    if ans.get("back") != "ok":
        return ["checkpoint does not read back: %s" % ans.get("back")], []
    other = []
    if not ans.get("same_tree"):
        other.append("deserialised checkpoint differs from the one serialised (JSON trees differ)")
    rest = [C.event_from_wire(r) for r in ans["restored"]]
    if len(rest) != len(evs):
        return other + ["%d events restored, %d saved" % (len(rest), len(evs))], []
    bad = [i for i, (a, b) in enumerate(zip(evs, rest)) if not C.event_eq(a, b)]
    if not bad:
        return other, []
    # is every difference explained by the timestamp being cut to whole milliseconds?
    only_ts = all(evs[i]["ts"] % 1_000_000 != 0 and C.event_eq(dict(evs[i], ts=evs[i]["ts"] // 1_000_000 * 1_000_000), rest[i]) for i in bad)
    diffs = ["event %d restored as %s, saved %s" % (i, C.render_event(rest[i]), C.render_event(evs[i])) for i in bad[:2]]
    return other + diffs, ([CLASS_SUBMS] if only_ts and not other else [])


def check(run):
    rng = run.rng
    run.rule = ("(a) lists of 1-3 random events (values of depth <= 2: i64 boundaries, finite/subnormal/huge/non-finite floats, unicode and "
                "escaped strings, timestamps, durations, nested arrays/maps) wrapped in a Checkpoint through codec::serialize/deserialize; "
                "(b) mutated SerializableValue / SerializableEvent JSON trees through codec::deserialize; (c) engine checkpoints of 6 "
                "programs (count/tumbling/session/partitioned windows, sequence pattern, distinct) after random events; "
                "non-trivial = (a) an event with >= 2 fields or a nested value, (b) any tree, (c) a checkpoint holding >= 1 event; distinct = distinct input")
    run.trusted += ["Coq 8.16.1 kernel + vm_compute",
                    "hand-written model coq/theories/Codec/Model.v tied by differential run (serialised events subtree, restored events, reading of mutated trees)",
                    "JSON text layer (serde_json printer/parser, codec::is_json): abstract print/parse with parse(print t) = Some t in the theorems; "
                    "the driver's own JSON parser/printer (checks/codec_common.py) stands between text and tree in the comparison",
                    "HashMap iteration order not modelled (event fields compared as maps)",
                    "Rust harness harness/crates/codec (tagged value wire format from harness/crates/common), Python driver"]
    run.assumptions += ["event timestamps within chrono's DateTime range", "feature binary-codec (MessagePack) off, as in the default build"]
    binpath = C.build(run, ["theories/Codec/Props.vo"], "C20.v")
    if binpath is None:
        return
    quick = run.tier == "quick"
    # ---- (a) events through the codec
    ev_cases = list(CORPUS_EVENTS)
    for _ in range(400 if quick else 8000):
        ev_cases.append([C.gen_event(rng, True, True) for _ in range(rng.range(1, 3))])
    answers = harness.run_jsonl(binpath, [{"prop": "C20", "events": [C.event_to_wire(e) for e in evs]} for evs in ev_cases])
    impl = []
    for evs, a in zip(ev_cases, answers):
        if "panic" in a or a.get("text") is None:
            impl.append("PANIC/sererr " + json.dumps(a)[:200])
            continue
        tree = C.parse_json(a["text"])
        sub = C.tree_get(C.tree_get(C.tree_get(tree, "window_states"), "w"), "events")
        dec = "ok:" + ";".join(C.render_event(C.event_from_wire(r)) for r in a["restored"]) if a["back"] == "ok" else "err"
        impl.append("enc=" + C.render_json(sub) + "|dec=" + dec)
    model = eval_model(run, "C20a", ["c20_case [%s]" % "; ".join(C.g_event(e) for e in evs) for evs in ev_cases])
    n_or = n_co = 0
    sub_hits = 0
    for k, (evs, a, si, sm) in enumerate(zip(ev_cases, answers, impl, model)):
        nontriv = json.dumps([C.render_event(e) for e in evs]) if any(len(e["fields"]) >= 2 or any(v[0] in "AM" for _, v in e["fields"]) for e in evs) else None
        run.case(nontriv, sample={"events": [C.render_event(e) for e in evs][:2], "impl": si[:300]} if k in (0, 7) else None)
        for e in evs:
            run.count("a:ts=" + ("whole-ms" if e["ts"] % 1_000_000 == 0 else "sub-ms"))
            for _, v in e["fields"]:
                run.count("a:field=" + v[0] + ("(non-finite)" if C.has_nonfinite(v) else ""))
        fails, classes = judge_events(evs, a)
        if fails:
            if classes == [CLASS_SUBMS]:
                sub_hits += 1
                run.violation("; ".join(fails)[:600], {"events": [C.event_to_wire(e) for e in evs]}, classes=classes)
                continue
            n_or += 1
            if n_or <= 3:
                small = shrink_events(binpath, evs)
                aa = harness.run_jsonl(binpath, [{"prop": "C20", "events": [C.event_to_wire(e) for e in small]}])[0]
                f2, c2 = judge_events(small, aa)
                run.violation("; ".join(f2)[:700], {"kind": "events", "events": [C.event_to_wire(e) for e in small], "implementation": aa,
                                                     "contradicts": "C20_checkpoint_roundtrip in coq/theories/Codec/Props.v"}, classes=c2)
        if sm is not None and si != sm:
            n_co += 1
            if n_co <= 3:
                run.tie_broken("correspondence Codec/Model.v vs persistence.rs/codec.rs on events %s" % [C.render_event(e) for e in evs],
                               "model and implementation differ:\n impl  %s\n model %s" % (si, sm))
    run.count("a:known-finding sub-ms cases", sub_hits)
    # the known finding must still be there (witness of C20_subms_refuted replayed)
    if sub_hits == 0:
        run.tie_broken("known finding %s not reproduced" % CLASS_SUBMS, "no generated sub-millisecond event lost its timestamp; remove the finding and restate the theorem")
    # ---- (b) reading mutated trees
    trees = [("value", C.parse_json(t)) for t in CORPUS_TREES]
    for _ in range(500 if quick else 10000):
        if rng.chance(2, 3):
            t = sv_tree(C.gen_value(rng, 2, True))
            for _ in range(rng.below(3)):
                t = mutate(rng, t)
            trees.append(("value", t))
        else:
            trees.append(("event", gen_event_tree(rng)))
    texts = [C.print_json(t) for _, t in trees]
    ans_b = harness.run_jsonl(binpath, [{"prop": "C20d", "kind": k, "text": tx} for (k, _), tx in zip(trees, texts)])
    impl_b = []
    for (k, _), a in zip(trees, ans_b):
        if a.get("res") == "ok":
            impl_b.append("ok:" + (C.render_value(C.value_from_wire(a["value"])) if k == "value" else C.render_event(C.event_from_wire(a["event"]))))
        else:
            impl_b.append("err" if "panic" not in a else "PANIC " + a["panic"])
    model_b = eval_model(run, "C20b", ["%s %s" % ("c20d_value" if k == "value" else "c20d_event", C.g_json(t)) for k, t in trees])
    for k, ((kind, t), tx, si, sm) in enumerate(zip(trees, texts, impl_b, model_b)):
        run.case("b:" + tx, sample={"tree": tx[:200], "impl": si[:200]} if k == 3 else None)
        run.count("b:%s=%s" % (kind, "accepted" if si.startswith("ok") else "rejected"))
        if sm is not None and si != sm:
            n_co += 1
            if n_co <= 5:
                run.tie_broken("correspondence Codec/Model.v (sv_of_json / sev_of_json) vs serde derive on %s" % tx[:300],
                               "model and implementation differ:\n impl  %s\n model %s" % (si, sm))
    # ---- (c) engine checkpoints
    eng = []
    for _ in range(60 if quick else 1500):
        vpl = rng.choice(PROGRAMS)
        evs = []
        ts = 1_700_000_000_000_000_000
        for _ in range(rng.range(1, 6)):
            ts += rng.choice([0, 1_000_000, 500_000_000, 1_000_000_000, 4_000_000_000])
            xv = rng.choice([("I", rng.range(-5, 5)), ("F", C.gen_float_bits(rng, True)), ("F", C.gen_float_bits(rng, True)), ("S", C.gen_str(rng)), C.gen_value(rng, 1, True)])
            kv = rng.choice([("S", C.cps("k1")), ("S", C.cps("k2")), ("I", 7), ("S", C.gen_str(rng))])
            evs.append({"type": C.cps(rng.choice(["A", "A", "B"])), "ts": ts, "fields": [(C.cps("x"), xv), (C.cps("k"), kv)]})
        eng.append((vpl, evs))
    ans_c = harness.run_jsonl(binpath, [{"prop": "C20e", "vpl": v, "events": [C.event_to_wire(e) for e in evs]} for v, evs in eng])
    for k, ((vpl, evs), a) in enumerate(zip(eng, ans_c)):
        run.case(("c", vpl, json.dumps([C.render_event(e) for e in evs])) if a.get("n_events", 0) >= 1 else None)
        run.count("c:program=%d" % PROGRAMS.index(vpl))
        run.count("c:events-in-checkpoint=%s" % min(a.get("n_events", 0), 4))
        fails = []
        if "panic" in a or "error" in a:
            fails.append("engine checkpoint: %s" % (a.get("panic") or a.get("error")))
        elif a["back"] != "ok":
            fails.append("engine checkpoint does not read back: %s" % a["back"])
        else:
            if not a["same_tree"]:
                fails.append("engine checkpoint differs after serialise/deserialise")
            if not a["restore"]:
                fails.append("restore_checkpoint failed on the deserialised checkpoint")
            elif not a["same_after_restore"]:
                fails.append("restored engine produces a different checkpoint")
        if fails:
            n_or += 1
            if n_or <= 3:
                run.violation("; ".join(fails)[:600], {"kind": "engine", "vpl": vpl, "events": [C.event_to_wire(e) for e in evs], "implementation": a})
    run.extra["oracle_failures"] = n_or
    run.extra["disagreements"] = n_co


def eval_model(run, tag, exprs):
    try:
        return coqtools.coq_eval(tag, C.IMPORTS, exprs, shard=max(20, len(exprs) // 16 + 1))
    except RuntimeError as e:
        run.tie_broken("model evaluation (coqc cases %s)" % tag, str(e))
        return [None] * len(exprs)


def shrink_events(binpath, evs):
    def bad(es):
        a = harness.run_jsonl(binpath, [{"prop": "C20", "events": [C.event_to_wire(e) for e in es]}])[0]
        f, c = judge_events(es, a)
        return bool(f) and c != [CLASS_SUBMS]
    cur = list(evs)
    for i in range(len(cur) - 1, -1, -1):
        cand = cur[:i] + cur[i + 1:]
        if cand and bad(cand):
            cur = cand
    out = []
    for e in cur:
        fields = list(e["fields"])
        for i in range(len(fields) - 1, -1, -1):
            cand_e = dict(e, fields=fields[:i] + fields[i + 1:])
            cand = [cand_e if x is e else x for x in cur]
            if bad(cand):
                fields = cand_e["fields"]
                cur = cand
                e = cand_e
        out.append(e)
    return cur


def replay(run, path):
    r = json.load(open(path))["replay"]
    ok, bindir, lg = harness.build("vp-codec")
    b = os.path.join(bindir, "vp-codec")
    run.case(("replay",), {"replay": str(r)[:300]})
    run.case(("replay2",))
    if r.get("kind") == "engine":
        a = harness.run_jsonl(b, [{"prop": "C20e", "vpl": r["vpl"], "events": r["events"]}])[0]
        if a.get("back") != "ok" or not a.get("same_tree") or not a.get("restore") or not a.get("same_after_restore"):
            run.violation("engine checkpoint round trip fails: %s" % json.dumps(a)[:400], r)
        return
    evs = [C.event_from_wire(e) for e in r["events"]]
    a = harness.run_jsonl(b, [{"prop": "C20", "events": r["events"]}])[0]
    fails, classes = judge_events(evs, a)
    if fails:
        run.violation("; ".join(fails)[:700], {"kind": "events", "events": r["events"], "implementation": a}, classes=classes)
