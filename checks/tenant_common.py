"""Shared pieces of the C28 / C29 / C31 checks (areas Tenant, Rbac, Path): harness build, Gallina printers."""
import os
import sys

from vplib import coqtools, harness
from vplib.common import VERIF, sh

BIN = "vp-api"


def run_translator(run, name, what):
    tr = sh([sys.executable, os.path.join(VERIF, "translate", name)], timeout=180)
    if tr.returncode != 0:
        run.tie_broken("translator %s (%s)" % (name, what), (tr.stdout + tr.stderr)[-2000:])
        return False
    return True


def build(run, targets, audit_file, allow_axioms=()):
    """proof obligations + harness build; returns the binary path or None"""
    coqtools.prove(run, targets, audit_file, allow_axioms=allow_axioms)
    ok, bindir, lg = harness.build(BIN)
    if not ok:
        run.tie_broken("harness build (cargo build -p %s)" % BIN, lg[-3000:])
        return None
    return os.path.join(bindir, BIN)


def g_str(s):
    return coqtools.g_str(s)


def g_opt_str(s):
    return "None" if s is None else "(Some %s)" % g_str(s)


def g_list(xs, f=str):
    return "[" + "; ".join(f(x) for x in xs) + "]"
