"""C19 — checkpoint and restore are invisible in the output."""
import json
import os

from checks import dispatch_common as D
from vplib import coqtools, harness

META = {
    "technique": "Coq proof (watermark tracker and the engine's late-data gate: checkpoint -> fresh tracker/engine -> restore at any points of any history is invisible, C19_watermark_*; component level: every window type incl. partitioned forms, distinct, limit: checkpoint->restore inserted at any positions leaves the emitted windows unchanged outside two decidable known-finding classes; refuted witnesses inside them) + model/impl differential on the real window objects + the property's own differential on the real Engine (uninterrupted vs checkpoint -> serde_json -> restore into a fresh engine at every cut point)",
    "design_ref": "DESIGN.md §7 C19",
    "level_text": "Theorems C19_watermark_tracker / _restore_exact / _engine in coq/theories/Watermark/PropsCkpt.v (every program with .watermark/.allowed_lateness, every history of events, external watermark advances and registrations, restore points anywhere: same final tracker state and same delivered/dropped decision per event), tied by running the same op lists with restore points on PerSourceWatermarkTracker and on Engine::create_checkpoint/restore_checkpoint; theorems C19_* in coq/theories/Ckpt/Props.v: for every window type (tumbling, count, session, sliding, sliding count and the partitioned form of each), every event sequence and checkpoint->restore into a new window at any set of cut points, the window emits what it emits without the checkpoints, provided no timestamp has a sub-millisecond part and a sliding count window slides by at most 1 (C19_windows); both exclusions are refuted by concrete witnesses replayed against the real windows on every run (C19_slide_counter_refuted, C19_subms_refuted); the distinct LRU snapshot and the limit counter restore the same state (C19_distinct, C19_limit). Engine level (whole programs: sequences, joins, derived streams, variables): tested by the property's own differential at every cut point, not proved.",
    "level_note": "Proved at component level on the window state machines of Window/Model.v plus the checkpoint/restore functions of Ckpt/Model.v; the serde_json round trip is the identity in the model (C20's subject) and an event's field map (whose order a restored event loses) is not modelled. SASE runs, join buffers and engine variables have no Coq model here (the watermark tracker has: Watermark/Ckpt.v, whole-millisecond instants): they are covered only by the engine-level differential. Known findings are classified by predicates on the input (program has a sliding count window with slide > 1; some event timestamp is not a whole millisecond).",
}
CONTRA = "C19_windows (coq/theories/Ckpt/Props.v)"
MS = 1_000_000
S = 1_000_000_000

# ------------------------------------------------------------- component level
KINDS = ["tumbling", "sliding", "count", "scount", "session", "ptumbling", "psliding", "psession"]


def gen_window_case(rng, force_kind=None, subms=False):
    kind = force_kind or rng.choice(KINDS)
    a = b = 0
    if kind in ("tumbling", "ptumbling"):
        a = rng.range(2, 5) * S
    elif kind in ("sliding", "psliding"):
        a = rng.range(2, 5) * S
        b = rng.range(1, 3) * S
    elif kind == "count":
        a = rng.range(1, 4)
    elif kind == "scount":
        a = rng.range(2, 4)
        b = rng.choice([1, 1, 1, 2, 3])
    else:
        a = rng.range(1, 3) * S
    ops = []
    ts = 0
    n = rng.range(2, 10)
    for i in range(n):
        ts += rng.choice([0, 1, 1, 1, 2, 4]) * S // rng.choice([1, 1, 2])
        t = ts + (rng.below(MS) if subms and rng.chance(1, 2) else 0)
        key = rng.below(3) - (1 if rng.chance(1, 8) else 0)
        fields = [["id", {"i": str(i + 1)}]] + ([["k", {"i": str(key)}]] if key >= 0 else [])
        ops.append(["add", {"type": "E", "ts_ns": t, "fields": fields}])
        if rng.chance(1, 3):
            ops.append(["cp"])
    if not any(o[0] == "cp" for o in ops):
        ops.insert(rng.range(1, len(ops)), ["cp"])
    return {"op": "window", "kind": kind, "a": a, "b": b, "key": "k", "ops": ops}


def w_classes(case):
    cl = []
    if case["kind"] == "scount" and case["b"] > 1:
        cl.append("sliding-count-slide-counter")
    if any(o[0] == "add" and o[1]["ts_ns"] % MS != 0 for o in case["ops"]):
        cl.append("sub-millisecond-timestamps")
    return cl


def g_kind(case):
    k, a, b = case["kind"], case["a"], case["b"]
    return {"tumbling": "KTumbling %d" % a, "sliding": "KSliding %d %d" % (a, b), "count": "KCount %d%%nat" % a,
            "scount": "KSlidingCount %d%%nat %d%%nat" % (a, b), "session": "KSession %d" % a,
            "ptumbling": "KPTumbling %d" % a, "psliding": "KPSliding %d %d" % (a, b), "psession": "KPSession %d" % a}[k]


def g_wops(case):
    out = []
    for o in case["ops"]:
        if o[0] == "cp":
            out.append("CCp")
        else:
            e = o[1]
            f = {k: int(list(v.values())[0]) for k, v in e["fields"]}
            out.append("CAdd (mkEv %d %d (%d))" % (f["id"], e["ts_ns"], f.get("k", -1)))
    return "[" + "; ".join(out) + "]"


def r_wans(ans):
    def evs(l):
        return "[" + ",".join("%d@%d" % (i, t) for i, t in l) + "]"
    parts = []
    for o in ans["outs"]:
        parts.append("cp" if o == "cp" else "-" if o is None else evs(o))
    fin = ans["final"]
    return ";".join(parts) + "|" + (str(fin) if isinstance(fin, int) else evs(fin))


WIMPORTS = ("From Coq Require Import String.\nFrom VP Require Import Base.Tactics Base.Render Window.Model Window.Run Ckpt.Model Ckpt.Run.\n"
            "Open Scope string_scope.\nOpen Scope Z_scope.\n")

# the Coq `_refuted` witnesses, replayed against the real windows on every run
WITNESSES = [
    ("C19_slide_counter_refuted", {"op": "window", "kind": "scount", "a": 3, "b": 2, "key": "k",
                                   "ops": [["add", {"type": "E", "ts_ns": (i + 1) * MS, "fields": [["id", {"i": str(i + 1)}], ["k", {"i": "0"}]]}] for i in range(4)]
                                   + [["cp"], ["add", {"type": "E", "ts_ns": 5 * MS, "fields": [["id", {"i": "5"}], ["k", {"i": "0"}]]}]]}),
    ("C19_subms_refuted (tumbling)", {"op": "window", "kind": "tumbling", "a": MS, "b": 0, "key": "k",
                                      "ops": [["add", {"type": "E", "ts_ns": 500000, "fields": [["id", {"i": "1"}], ["k", {"i": "0"}]]}], ["cp"],
                                              ["add", {"type": "E", "ts_ns": 1200000, "fields": [["id", {"i": "2"}], ["k", {"i": "0"}]]}]]}),
    ("C19_subms_refuted (count)", {"op": "window", "kind": "count", "a": 2, "b": 0, "key": "k",
                                   "ops": [["add", {"type": "E", "ts_ns": 1500, "fields": [["id", {"i": "1"}], ["k", {"i": "0"}]]}], ["cp"],
                                           ["add", {"type": "E", "ts_ns": 2000000, "fields": [["id", {"i": "2"}], ["k", {"i": "0"}]]}]]}),
]


def strip_cp(case):
    c = dict(case)
    c["ops"] = [o for o in case["ops"] if o[0] != "cp"]
    return c


def adds_only(ans):
    return [o for o in ans["outs"] if o != "cp"]


# ---------------------------------------------------------------- engine level
def gen_ckpt_program(rng):
    n = rng.range(1, 3)
    p = []
    names = ["S%d" % (i + 1) for i in range(n)]
    for i in range(n):
        prev = names[:i]
        src = rng.choice(prev) if prev and rng.chance(1, 3) else rng.choice(D.RAW)
        raw = src in D.RAW
        k = rng.below(10)
        if k <= 5:
            ops = []
            if rng.chance(1, 3):
                ops.append(["where", rng.range(0, 4)])
            part = rng.chance(1, 3)
            if part:
                ops.append(["partition"])
            w = rng.below(7) if raw else rng.choice([0, 1, 1])
            if w == 0:
                ops.append(["window", rng.range(2, 3)])
            elif w == 1:
                ops.append(["swindow", rng.range(2, 3), rng.choice([1, 1, 1, 2])])
            elif w == 2:
                ops.append(["twindow", rng.range(2, 4)])
            elif w == 3:
                ops.append(["sltwindow", rng.range(3, 5), rng.range(1, 2)])
            elif w == 4:
                ops.append(["session", rng.range(1, 2)])
            elif w == 5:
                ops.append(["distinct"])
            else:
                ops.append(["limit", rng.range(1, 4)])
            if w <= 4 and rng.chance(2, 3):
                ops.append(["agg"])
            if rng.chance(1, 5):
                ops.append(["distinct"])
            if rng.chance(1, 6):
                ops.append(["limit", rng.range(2, 4)])
            if rng.chance(1, 8):
                # a second operator of a kind the stream already has (own checkpoint slot each)
                ops.insert(0, rng.choice([["limit", rng.range(1, 2)], ["distinct"], ["window", 2]]))
            if rng.chance(5, 6):
                ops.append(["emit"])
            p.append({"name": names[i], "kind": "pipe", "src": src, "ops": ops})
        elif k <= 7:
            steps = [rng.choice(D.RAW), rng.choice(D.RAW)]
            if rng.chance(1, 2):
                steps.append(rng.choice(D.RAW))
            s = {"name": names[i], "kind": "seq", "steps": steps, "corr": rng.chance(1, 3), "emit": True,
                 "all": rng.chance(1, 3), "part": rng.chance(1, 4)}
            if rng.chance(1, 4):
                s["neg"] = rng.choice(D.RAW)
            p.append(s)
        elif k == 8:
            l = rng.choice(D.RAW)
            r = rng.choice([t for t in D.RAW if t != l])
            p.append({"name": names[i], "kind": "join", "l": l, "r": r, "win": rng.choice([2, 5, 10]), "emit": True})
        else:
            a = rng.choice(D.RAW)
            b = rng.choice([t for t in D.RAW if t != a])
            p.append({"name": names[i], "kind": "merge", "srcs": [a, b], "ops": [["window", 2], ["agg"], ["emit"]]})
    return p


def gen_ckpt_events(rng, p, subms):
    evs = []
    ts = 0
    for i in range(rng.range(3, 9)):
        ts += rng.choice([1, 1, 1, 2, 3]) * S // rng.choice([1, 1, 2])
        t = ts + (rng.range(1, MS - 1) if subms and rng.chance(2, 3) else 0)
        evs.append({"type": rng.choice(D.RAW + [D.RAW[0]]), "ts_ns": t,
                    "fields": [["x", {"i": str(rng.range(0, 9))}], ["k", {"i": str(rng.below(2))}]]})
    return evs


def e_classes(p, evs):
    cl = []
    if any(op[0] == "swindow" and op[2] > 1 for s in p for op in s.get("ops", [])):
        cl.append("sliding-count-slide-counter")
    if any(e["ts_ns"] % MS != 0 for e in evs):
        cl.append("sub-millisecond-timestamps")
    return cl


def canon_ev(e, known_ts):
    ts = e.get("ts_ns")
    fs = sorted((k, json.dumps(v, sort_keys=True)) for k, v in e["fields"] if k != "match_duration_ms")
    return (e["type"], ts if ts in known_ts else "now", tuple(fs))


def judge_engine(evs, ans):
    """The property: for every cut point, the outputs after the cut are those of the uninterrupted run."""
    if "panic" in ans:
        return ["implementation panicked: " + ans["panic"]], []
    if "full" not in ans:
        return [], []
    known = set()
    for e in evs:
        known.add(e["ts_ns"])
        known.add(e["ts_ns"] // MS * MS)
    full = [[canon_ev(e, known) for e in st] for st in ans["full"]]
    fails = []
    cuts = []
    for c in ans["cuts"]:
        k = c["k"]
        if c.get("error"):
            fails.append("cut %d: %s" % (k, c["error"]))
            cuts.append(k)
            continue
        tail = [[canon_ev(e, known) for e in st] for st in c["tail"]]
        if tail != full[k:]:
            j = next(i for i, (x, y) in enumerate(zip(tail, full[k:])) if x != y)
            fails.append("checkpoint/restore after %d events changes the outputs of event %d: %s instead of %s" % (
                k, k + j, [D.short_event(e) for e in c["tail"][j]], [D.short_event(e) for e in ans["full"][k + j]]))
            cuts.append(k)
    return fails[:4], cuts


def engine_req(p, evs, cuts=None):
    return {"op": "engine", "vpl": D.vpl_program(p), "events": evs, "cuts": list(range(len(evs) + 1)) if cuts is None else cuts}


def shrink_engine(binpath, p, evs, classes):
    """drop events while the failure (and its classification) stays"""
    def fails(pp, ee):
        a = harness.run_jsonl(binpath, [engine_req(pp, ee)])[0]
        return bool(judge_engine(ee, a)[0]) and e_classes(pp, ee) == classes
    changed = True
    budget = 40
    while changed and budget > 0:
        changed = False
        for i in range(len(evs) - 1, -1, -1):
            budget -= 1
            cand = evs[:i] + evs[i + 1:]
            if len(evs) > 1 and fails(p, cand):
                evs = cand
                changed = True
                break
        if not changed:
            for i in range(len(p) - 1, -1, -1):
                budget -= 1
                cand = p[:i] + p[i + 1:]
                if len(p) > 1 and fails(cand, evs):
                    p = cand
                    changed = True
                    break
    return p, evs


ENGINE_CORPUS = [
    # two operators of one kind in a stream shared one checkpoint slot; restore overwrote both limits' maxima (fixed 796b38d)
    ([{"name": "S1", "kind": "pipe", "src": "B", "ops": [["limit", 1], ["limit", 4], ["emit"]]}],
     [("B", i + 1, 0) for i in range(5)]),
    ([{"name": "S1", "kind": "pipe", "src": "A", "ops": [["window", 2], ["distinct"], ["window", 2], ["distinct"], ["agg"], ["emit"]]}],
     [("A", [1, 2, 1, 3, 4, 5, 2, 6][i], 0) for i in range(8)]),
    # partitioned sliding count windows were not checkpointed at all (fixed)
    ([{"name": "S1", "kind": "pipe", "src": "A", "ops": [["partition"], ["swindow", 2, 1], ["agg"], ["emit"]]}],
     [("A", i + 1, i % 2) for i in range(6)]),
    # sliding count, slide 2: known finding
    ([{"name": "S1", "kind": "pipe", "src": "A", "ops": [["swindow", 3, 2], ["agg"], ["emit"]]}],
     [("A", i + 1, 0) for i in range(8)]),
]


# ------------------------------------------------- watermark tracker (Watermark/Ckpt.v)
WM_IMPORTS = ("From Coq Require Import String.\nFrom VP Require Import Base.Tactics Base.Render Watermark.Model Watermark.Run Watermark.Ckpt.\n"
              "Open Scope string_scope.\nOpen Scope Z_scope.\n")
WM_CONTRA = "C19_watermark_tracker / C19_watermark_engine (coq/theories/Watermark/PropsCkpt.v)"


def wm_with_cuts(rng, c):
    """a C24 case (tracker or engine) with checkpoint/restore points inserted; tracker cases get initial registrations"""
    ops = []
    for o in c["ops"]:
        ops.append(o)
        if rng.chance(1, 4):
            ops.append(["ckr", 0, 0])
    if not any(o[0] == "ckr" for o in ops):
        ops.insert(rng.range(1, len(ops)), ["ckr", 0, 0])
    c = dict(c, ops=ops)
    if c["api"] == "tracker":
        c["regs"] = [[n, rng.choice([0, 1, 2, 3])] for n in range(3) if rng.chance(1, 2)]
    return c


def wm_strip(c):
    return dict(c, ops=[o for o in c["ops"] if o[0] != "ckr"])


def wm_request(c):
    import checks.C24 as W
    if c["api"] == "tracker":
        return {"kind": "tracker", "regs": [[W.name(n), o] for n, o in c.get("regs", [])],
                "ops": [["ckr", "", 0] if o[0] == "ckr" else [o[0], W.name(o[1]), o[2]] for o in c["ops"]]}
    ops = []
    for k, o in enumerate(c["ops"]):
        if o[0] == "ev":
            ops.append(["ev", W.name(o[1]), o[2], o[3] if len(o) > 3 else k])
        elif o[0] == "ckr":
            ops.append(["ckr"])
        else:
            ops.append([o[0], W.name(o[1]), o[2]])
    return {"kind": "engine", "program": W.vpl_program(c), "ops": ops}


def wm_gallina(c):
    if c["api"] == "tracker":
        m = {"reg": "Reg", "obs": "Obs", "adv": "Adv"}
        return "ctracker_case [%s] [%s]" % ("; ".join("(%d, %d)" % (n, o) for n, o in c.get("regs", [])),
                                            "; ".join("CWCkr" if o[0] == "ckr" else "CW (%s %d (%d))" % (m[o[0]], o[1], o[2]) for o in c["ops"]))
    import checks.C24 as W
    m = {"ev": "Ev", "extwm": "ExtWm", "reg": "EReg"}
    streams = "; ".join("mkCfg %d %s %s" % (x["src"], W.g_oz(x["wm"]), W.g_oz(x["late"])) for x in c["streams"])
    return "cengine_case [%s] [%s]" % (streams, "; ".join("CECkr" if o[0] == "ckr" else "CE (%s %d (%d))" % (m[o[0]], o[1], o[2]) for o in c["ops"]))


def wm_number_events(c):
    """event ids = position among the non-checkpoint ops, so that the runs with and without checkpoints carry the same ids"""
    if c["api"] != "engine":
        return c
    ops = []
    k = 0
    for o in c["ops"]:
        if o[0] == "ev":
            ops.append([o[0], o[1], o[2], k])
        else:
            ops.append(o)
        if o[0] != "ckr":
            k += 1
    return dict(c, ops=ops)


def wm_impl_str(c, ans):
    import checks.C24 as W
    return W.impl_str(c, ans)


def wm_judge(c, a, b):
    """a: answer with checkpoints, b: without.  The lines of the non-checkpoint ops must agree; a checkpoint's own
    line must show the state of the line before it."""
    if "panic" in a or "panic" in b:
        return ["implementation panicked: %s" % (a.get("panic") or b.get("panic"))[:200]]
    if "error" in a or "error" in b:
        return ["error: %s" % (a.get("error") or b.get("error"))[:200]]
    fails = []
    j = 0
    prev = None
    for k, (o, st) in enumerate(zip(c["ops"], a["steps"])):
        if o[0] == "ckr":
            if any(x and x[0] == "error" for x in st.get("out", [])):
                fails.append("op %d: restore failed: %s" % (k, st["out"]))
            if prev is not None and (st["eff"], st["src"]) != (prev["eff"], prev["src"]):
                fails.append("op %d: tracker state after checkpoint->restore is eff=%s src=%s, before it eff=%s src=%s" % (k, st["eff"], st["src"], prev["eff"], prev["src"]))
        else:
            ref = b["steps"][j]
            j += 1
            if (st["eff"], st["src"], st.get("out")) != (ref["eff"], ref["src"], ref.get("out")):
                fails.append("op %d %s: with checkpoints eff=%s src=%s out=%s, without eff=%s src=%s out=%s" % (
                    k, o, st["eff"], st["src"], st.get("out"), ref["eff"], ref["src"], ref.get("out")))
        prev = st
    return fails[:3]


def wm_stage(run, rng):
    import checks.C24 as W
    okm, lgm = coqtools.make(["theories/Watermark/Ckpt.vo"])
    if not okm:
        run.tie_broken("model build Watermark/Ckpt.vo", lgm[-2000:])
        return
    okb, bindir, blog = harness.build("vp-watermark")
    if not okb:
        run.tie_broken("harness build vp-watermark", blog[-3000:])
        return
    binpath = os.path.join(bindir, "vp-watermark")
    n = 160 if run.tier == "quick" else 4000
    cases = [
        # restore point between the event that sets the watermark and a late event on each side of the lateness boundary
        {"api": "engine", "streams": [{"src": 0, "wm": 2, "late": 3}, {"src": 1, "wm": None, "late": None}],
         "ops": [["ev", 0, 10], ["ev", 1, 20], ["ckr", 0, 0], ["ev", 0, 5], ["ev", 0, 4], ["reg", 7, 1], ["ckr", 0, 0], ["ev", 7, 30], ["ev", 0, 9]]},
        # a source registered after load, and an auto-registered one, must survive the restore with their bounds
        {"api": "tracker", "regs": [[0, 2]], "ops": [["obs", 0, 10], ["reg", 1, 3], ["obs", 1, 9], ["obs", 2, 4], ["ckr", 0, 0], ["obs", 1, 12], ["adv", 2, 7], ["ckr", 0, 0], ["obs", 0, 11]]},
    ]
    for i in range(n):
        base = W.gen_tracker(rng, 12, rereg=(i % 8 == 0)) if i % 2 else W.gen_engine(rng, 14)
        cases.append(wm_with_cuts(rng, base))
    cases = [wm_number_events(c) for c in cases]
    plain = [wm_strip(c) for c in cases]
    answers = harness.run_jsonl(binpath, [wm_request(c) for c in cases] + [wm_request(c) for c in plain])
    try:
        model = coqtools.coq_eval("C19wm", WM_IMPORTS, [wm_gallina(c) for c in cases], shard=max(60, len(cases) // 6 + 1))
    except RuntimeError as e:
        run.tie_broken("model evaluation (coqc cases, watermark)", str(e))
        model = [None] * len(cases)
    nd = nf = 0
    for k, c in enumerate(cases):
        a, b = answers[k], answers[len(cases) + k]
        run.count("watermark api=" + c["api"])
        run.count("watermark cuts=%d" % min(4, sum(1 for o in c["ops"] if o[0] == "ckr")))
        steps = a.get("steps", [])
        nontrivial = None
        if any(isinstance(st.get("src"), list) and any(x[1] is not None for x in st["src"]) for o, st in zip(c["ops"], steps) if o[0] == "ckr"):
            nontrivial = "wm" + json.dumps(c, sort_keys=True)
        if c["api"] == "engine" and "steps" in b:
            run.count("watermark engine_dropped", sum(1 for o, st in zip(plain[k]["ops"], b["steps"]) if o[0] == "ev" and not st["out"]
                                                       and any(x["src"] == o[1] for x in c["streams"])))
        run.case(nontrivial)
        fails = wm_judge(c, a, b)
        if fails:
            nf += 1
            run.count("oracle_fail(watermark)")
            if nf <= 3:
                run.violation("watermark tracker: " + "; ".join(fails)[:700],
                              {"watermark": c, "program": W.vpl_program(c) if c["api"] == "engine" else None,
                               "with_cp": wm_impl_str(c, a), "without": wm_impl_str(plain[k], b), "contradicts": WM_CONTRA})
        si = wm_impl_str(c, a)
        if model[k] is not None and si != model[k]:
            nd += 1
            if nd <= 3:
                run.tie_broken("correspondence Watermark/Ckpt.v vs watermark.rs checkpoint/restore + Engine restore_checkpoint on %s" % json.dumps(c)[:800],
                               "impl  %s\nmodel %s" % (si, model[k]))
    run.extra["watermark_disagreements"] = nd
    run.extra["watermark_oracle_failures"] = nf
    return nf


def check(run):
    run.rule = ("component level: random add/checkpoint-restore sequences on the 8 public window types (2..10 events, cut points with prob 1/3 after each, "
                "1/5 of the cases with sub-ms timestamps), model vs real windows; engine level: programs of 1..3 streams (where / partition_by / count, sliding count, "
                "tumbling, sliding, session windows / aggregate / distinct / limit / emit, sequences with all / not / partition_by, joins, merges, derived sources) "
                "x 3..9 events x EVERY cut point, checkpoint -> serde_json -> restore into a fresh engine; non-trivial = some output after some cut; "
                "distinct = distinct (program, events)")
    run.trusted += ["Coq 8.16.1 kernel + vm_compute",
                    "window state machines coq/theories/Window/Model.v (tied to window.rs by C12/C13) + coq/theories/Ckpt/Model.v (checkpoint/restore functions), "
                    "tied by a differential run against the real window objects: emitted windows (ids and timestamps) and remaining buffer compared verbatim",
                    "serde_json round trip of checkpoints modelled as the identity (property C20)",
                    "Rust harness harness/crates/ckpt, Python driver checks/C19.py (generators, classification predicates, canonicalisation of wall-clock timestamps)"]
    run.assumptions += ["wall-clock values are canonicalised away (timestamps of Event::new-created events, match_duration_ms); event field order is not compared",
                        "no .within / timer / connector in the generated programs; .watermark / .allowed_lateness only in the watermark stage (streams of where-less emit pipelines)"]
    coqtools.prove(run, ["theories/Ckpt/Props.vo", "theories/Ckpt/Run.vo", "theories/Watermark/PropsCkpt.vo"], "C19.v")
    okb, bindir, blog = harness.build("vp-ckpt")
    if not okb:
        run.tie_broken("harness build vp-ckpt", blog[-3000:])
        return
    binpath = os.path.join(bindir, "vp-ckpt")
    rng = run.rng

    # ---- known findings: replay the Coq witnesses against the real windows
    wreqs = [w for _, w in WITNESSES]
    wans = harness.run_jsonl(binpath, wreqs + [strip_cp(w) for w in wreqs])
    for i, (name, w) in enumerate(WITNESSES):
        a, b = wans[i], wans[len(WITNESSES) + i]
        if "outs" in a and "outs" in b and adds_only(a) != adds_only(b):
            run.violation("%s reproduced on the real window: with checkpoint %s, without %s" % (name, adds_only(a), adds_only(b)),
                          {"window": w, "with_cp": a, "without": b}, classes=w_classes(w))
        else:
            run.tie_broken("witness %s no longer fails on the implementation (finding fixed? update Ckpt/Model.v and known_findings.json)" % name, json.dumps(a)[:400])

    # ---- component level: model vs implementation + oracle
    n = 220 if run.tier == "quick" else 5000
    wcases = []
    for i in range(n):
        wcases.append(gen_window_case(rng, subms=(i % 5 == 0)))
    answers = harness.run_jsonl(binpath, wcases + [strip_cp(c) for c in wcases])
    exprs = []
    n_w_oracle = 0
    for i, c in enumerate(wcases):
        a, b = answers[i], answers[n + i]
        run.count("window=" + c["kind"])
        run.count("cuts=%d" % min(3, sum(1 for o in c["ops"] if o[0] == "cp")))
        cl = w_classes(c)
        for x in cl:
            run.count("class=" + x)
        if "panic" in a or "panic" in b:
            run.violation("window panicked: %s" % (a.get("panic") or b.get("panic")), {"window": c})
            continue
        nontrivial = json.dumps(c, sort_keys=True) if any(o not in (None, "cp") for o in a["outs"]) else None
        run.case(nontrivial, sample={"window": c["kind"], "a": c["a"], "b": c["b"], "outs": r_wans(a)} if len(run.samples) < 2 and nontrivial else None)
        if adds_only(a) != adds_only(b):
            n_w_oracle += 1
            run.count("oracle_fail(component)")
            if n_w_oracle <= 6:
                run.violation("%s window: with checkpoints %s, without %s" % (c["kind"], adds_only(a), adds_only(b)),
                              {"window": c, "with_cp": a, "without": b, "contradicts": CONTRA}, classes=cl)
        exprs.append("ckpt_case (%s) %s" % (g_kind(c), g_wops(c)))
    try:
        model = coqtools.coq_eval("C19", WIMPORTS, exprs, shard=max(40, len(exprs) // 5 + 1))
    except RuntimeError as e:
        run.tie_broken("model evaluation (coqc cases)", str(e))
        model = [None] * len(exprs)
    nd = 0
    j = 0
    for i, c in enumerate(wcases):
        a = answers[i]
        if "panic" in a or "panic" in answers[n + i]:
            continue
        mo = model[j]
        j += 1
        if mo is not None and mo != r_wans(a):
            nd += 1
            if nd <= 3:
                run.tie_broken("correspondence Ckpt/Model.v vs window.rs checkpoint/restore on %s" % json.dumps(c)[:800],
                               "impl  %s\nmodel %s" % (r_wans(a), mo))
    run.extra["disagreements"] = nd

    # ---- engine level: the property's own differential at every cut point
    m = 110 if run.tier == "quick" else 2500
    ecases = [(p, D.mk_events(evs)) for p, evs in ENGINE_CORPUS]
    for e in ecases:
        for ev in e[1]:
            ev["ts_ns"] = ev["ts_ns"]          # whole seconds: aligned
    for i in range(m):
        p = gen_ckpt_program(rng)
        ecases.append((p, gen_ckpt_events(rng, p, subms=(i % 6 == 0))))
    eans = harness.run_jsonl(binpath, [engine_req(p, evs) for p, evs in ecases], timeout=2400)
    n_e_oracle = 0
    n_rej = 0
    for (p, evs), a in zip(ecases, eans):
        for s in p:
            run.count("kind=" + s["kind"])
            for op in s.get("ops", []):
                run.count("op=" + op[0])
            for f in ("all", "neg", "part"):
                if s.get(f):
                    run.count("seq-" + f)
        cl = e_classes(p, evs)
        for x in cl:
            run.count("class=" + x)
        if "full" not in a and "panic" not in a:
            n_rej += 1
            run.count("program-rejected")
            if n_rej <= 2:
                run.tie_broken("generated program rejected by parse/load", D.vpl_program(p) + json.dumps(a)[:300])
            run.case(None)
            continue
        fails, cuts = judge_engine(evs, a)
        some_out = "full" in a and any(st for st in a["full"][1:])
        run.case(json.dumps([p, evs], sort_keys=True) if some_out else None,
                 sample={"vpl": D.vpl_program(p), "events": [D.short_event(e) for e in evs]} if len(run.samples) < 4 and some_out else None)
        if fails:
            n_e_oracle += 1
            run.count("oracle_fail(engine)")
            run.count("oracle_fail(engine) classes=%s" % ",".join(cl))
            if n_e_oracle <= 8 or not cl:
                sp, se = (p, evs)
                if not cl and n_e_oracle <= 12:
                    sp, se = shrink_engine(binpath, p, evs, cl)
                    a2 = harness.run_jsonl(binpath, [engine_req(sp, se)])[0]
                    f2, c2 = judge_engine(se, a2)
                    if f2:
                        fails, cuts = f2, c2
                    else:
                        sp, se = p, evs
                run.violation("; ".join(fails)[:700],
                              {"vpl": D.vpl_program(sp), "program": sp, "events": se, "failing_cuts": cuts, "fails": fails,
                               "contradicts": "property C19 (engine level); component theorem " + CONTRA}, classes=cl)
    n_wm = wm_stage(run, rng) or 0
    run.extra["oracle_failures"] = n_e_oracle + n_w_oracle + n_wm


def replay(run, path):
    r = json.load(open(path))["replay"]
    ok, bindir, lg = harness.build("vp-ckpt")
    binpath = os.path.join(bindir, "vp-ckpt")
    run.case(("replay",), {"replay": path})
    run.case(("replay2",))
    if "watermark" in r:
        c = r["watermark"]
        ok, bindir, lg = harness.build("vp-watermark")
        a, b = harness.run_jsonl(os.path.join(bindir, "vp-watermark"), [wm_request(c), wm_request(wm_strip(c))])
        fails = wm_judge(c, a, b)
        if fails:
            run.violation("watermark tracker: " + "; ".join(fails)[:700], {"watermark": c})
    elif "window" in r:
        c = r["window"]
        a, b = harness.run_jsonl(binpath, [c, strip_cp(c)])
        if adds_only(a) != adds_only(b):
            run.violation("%s window: with checkpoints %s, without %s" % (c["kind"], adds_only(a), adds_only(b)), {"window": c}, classes=w_classes(c))
    else:
        p, evs = r["program"], r["events"]
        a = harness.run_jsonl(binpath, [engine_req(p, evs)])[0]
        fails, cuts = judge_engine(evs, a)
        if fails:
            run.violation("; ".join(fails)[:700], {"vpl": D.vpl_program(p), "program": p, "events": evs, "failing_cuts": cuts}, classes=e_classes(p, evs))
