"""C07 — ZDDs are canonical; gc preserves live families; iteration yields each member once, ascending."""
from checks import zdd_common as Z
from checks import C06

META = {
    "technique": "Coq proof (canonicity by induction on ranks; gc = remap homomorphism; invariant over all op sequences) + model/impl differential comparing the arena node table verbatim",
    "design_ref": "DESIGN.md §7 C07",
    "level_text": "Theorems C07_* in coq/theories/Zdd/Props.v hold for every table/operation sequence of the model; the model is tied to ZddArena by comparing roots, node counts, the dumped node table and iteration order on every run",
    "level_note": "trusted: Coq kernel + vm_compute; the hand-written model (tied by differential run incl. node dump via the cfg(varpulis_verif) hook ZddArena::verif_nodes); FxHashMap index modelled as linear search; harness + Python driver",
}
CATS = ("canon", "struct", "iter", "panic")


def judge(api, ops, ans):
    fails = Z.check_against_oracle(api, ops, ans)
    out = [m for c, m in fails if c in CATS]
    # gc must return handles denoting exactly the families the live handles denoted
    if any(o[0] == "gc" for o in ops):
        out += [m for c, m in fails if c == "algebra"]
    return out


def cases_for(run):
    rng = run.rng
    cases = []
    n = 260 if run.tier == "quick" else 4000
    for i in range(n):
        ops = Z.gen_ops(rng, "arena", 10 if i % 3 else 16)
        # build the same family in a second way so that canonicity is exercised
        nh = sum(1 for o in ops if Z.pushes(o)) if not any(o[0] == "gc" for o in ops) else None
        if nh and nh >= 2:
            a, b = rng.below(nh), rng.below(nh)
            ops = ops + [["union", a, b], ["union", b, a], ["inter", a, b], ["diff", a, b], ["union", nh + 2, nh + 3]]
            # (a∩b) ∪ (a∖b) = a : handle nh+4 must equal handle a
        if rng.chance(1, 2):
            cur = sum(1 for o in ops if Z.pushes(o)) if not any(o[0] == "gc" for o in ops) else None
            if cur:
                keep = rng.shuffle([i for i in range(cur) if rng.chance(2, 3)])
                ops = ops + [["gc", keep]]
                if len(keep) >= 2:
                    ops = ops + [["union", 0, 1], ["union", 1, 0], ["diff", 0, 1], ["count", 0]]
        cases.append(("arena", ops))
    for api in ("arena",):
        cases += Z.exhaustive_pairs(2, ["union", "inter", "diff"], api)
    if run.tier == "thorough":
        cases += Z.exhaustive_pairs(3, ["union", "inter", "diff"], "arena", limit=8000, rng=rng)
    return cases


def check(run):
    run.rule = ("arena op sequences over <=5 variables that build the same families in several ways, interleaved with gc keeping random "
                "handle subsets (seeded) + all pairs of families over 2 (thorough: 3, sampled) variables; judged: equal family <=> equal root, "
                "node table reduced/ordered/unique, iteration once+ascending, gc preserves kept families; non-trivial as in C06")
    run.trusted += ["Coq 8.16.1 kernel + vm_compute", "hand-written model coq/theories/Zdd/Model.v tied by differential run (roots, node counts, dumped node table, iteration order compared verbatim)",
                    "hook ZddArena::verif_nodes (cfg varpulis_verif, read-only)", "Rust harness harness/crates/zdd, Python driver checks/zdd_common.py",
                    "FxHashMap index of UniqueTable modelled as linear search (same function)"]
    run.assumptions += ["u32 variable ids / node ids do not overflow on the explored sizes (model uses unbounded N / nat)"]
    binpath = Z.build_all(run, ["theories/Zdd/Props.vo"], "C07.v")
    if binpath is None:
        return
    C06.report(run, binpath, cases_for(run), judge, "C07")


def replay(run, path):
    C06.replay.__globals__["judge"], saved = judge, C06.replay.__globals__["judge"]
    try:
        C06.replay(run, path)
    finally:
        C06.replay.__globals__["judge"] = saved
