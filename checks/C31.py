"""C31 — file paths accepted by the server always stay inside the work directory."""
import json
import os
import shutil

from checks import tenant_common as T
from vplib import coqtools, harness

META = {
    "technique": "Coq proof over a file-system tree model with symlinks (realpath with fuel, component-wise prefix) + differential run of security::validate_path on real temporary directory trees, judged against the OS's own resolution",
    "design_ref": "DESIGN.md §7 C31",
    "level_text": "Theorems C31_* in coq/theories/Path/Props.v: for every tree, work directory and request string, an accepted path is the realpath of the request, extends the work directory's realpath component-wise and names an object reached from the work directory's own node without following any symlink; escaping requests are refused; realpath's answer is a physical path. The model is tied to validate_path by running both on random trees with symlinks inside/outside, loops, dangling links, and random path strings",
    "level_note": "By construction close to the definition of the check; the weight is on the tie. Trusted / modelled: the OS realpath(3) behind std::fs::canonicalize (model: components left to right, '..' physical, 40-symlink limit, ENOTDIR for a non-directory followed by anything), Path::starts_with as component-wise prefix, PathBuf::join; permissions (the check runs as the current user, no unreadable directories), mount points, hard links, case-insensitive or normalising file systems, time-of-check/time-of-use races between validate_path and the later read are out of scope.",
}

W, O, W2, WL = "wk9", "out9", "wk92", "wl9"      # work dir, outside dir, sibling sharing the prefix, symlink to the work dir
ALL_NAMES = ["a", "b", "sub", "d", "f.txt", "g", "a b", "é", "..x", "x..", ".h", "~", "%2e%2e", "c\\d", "名", "...", "-", "ÿ"]
# symlinks to "/" and ".." chains lead into the real / and /tmp, which the model does not describe: names that exist there are not used
NAMES = [n for n in ALL_NAMES if not os.path.lexists("/" + n) and not os.path.lexists("/tmp/" + n)]


def gen_tree(rng, base_name):
    """-> spec: nested {'name': ('dir', {...}) | ('file',) | ('link', target)}; the tree lives in <base>/"""
    base = "/tmp/" + base_name

    def gen_dir(depth, inside):
        d = {}
        for name in rng.shuffle(NAMES)[:rng.range(1, 4 if depth else 5)]:
            r = rng.below(10)
            if r < 3 and depth < 3:
                d[name] = ("dir", gen_dir(depth + 1, inside))
            elif r < 6:
                d[name] = ("file",)
            else:
                d[name] = ("link", gen_target(rng, base, depth, inside))
        return d
    w = gen_dir(1, True)
    o = gen_dir(1, False)
    w.setdefault("sub", ("dir", {"f.txt": ("file",)}))
    o.setdefault("f.txt", ("file",))
    spec = {W: ("dir", w), O: ("dir", o), W2: ("dir", {"f.txt": ("file",)}),
            WL: ("link", rng.choice([W, base + "/" + W, O, W + "/sub"]))}
    return spec


def gen_target(rng, base, depth, inside):
    r = rng.below(12)
    up = "../" * depth
    if r == 0:
        return "nope"                                    # dangling
    if r == 1:
        return rng.choice(NAMES)                          # sibling (maybe itself: loop)
    if r == 2:
        return "sub"
    if r == 3:
        return up + (O if inside else W) + "/" + rng.choice(["f.txt", "sub", ""])
    if r == 4:
        return base + "/" + rng.choice([O + "/f.txt", O, W + "/sub", W + "/sub/f.txt", W, W2 + "/f.txt"])
    if r == 5:
        return "./" + rng.choice(NAMES) + "/../" + rng.choice(NAMES)
    if r == 6:
        return up + W2
    if r == 7:
        return up + ".." + "/" + os.path.basename(base) + "/" + rng.choice([W, O])
    if r == 8:
        return "/"
    if r == 9:
        return ".."
    if r == 10:
        return "."
    return up + rng.choice([W, O]) + "/" + rng.choice(NAMES)


def all_paths(spec, prefix=""):
    out = []
    for name, n in spec.items():
        p = prefix + name
        out.append(p)
        if n[0] == "dir":
            out += all_paths(n[1], p + "/")
    return out


def gen_paths(rng, spec, base, n):
    """request strings, relative to the work directory <base>/w (or whatever wd is)"""
    inside = [p[len(W) + 1:] for p in all_paths(spec) if p.startswith(W + "/")]
    outside = [p for p in all_paths(spec) if not p.startswith(W + "/")]
    out = ["", ".", "..", "/", "sub/f.txt", "../" + O + "/f.txt", "../" + W2 + "/f.txt", base + "/" + O + "/f.txt", base + "/" + W + "/sub/f.txt", "sub/../../" + O, "sub/f.txt/", "sub/f.txt/.", "sub/f.txt/..",
           "a\u0000b", "../" + W + "/sub/f.txt", "sub//f.txt", "./sub/./f.txt", "..//" + W]
    while len(out) < n:
        r = rng.below(10)
        if r < 3 and inside:
            p = rng.choice(inside)
        elif r < 5:
            p = "../" + rng.choice(outside)
        elif r < 6:
            p = base + "/" + rng.choice(inside and [W + "/" + rng.choice(inside)] or [W] + outside)
        elif r < 8:
            parts = [rng.choice(NAMES + ["..", "..", ".", "", "sub", O, W, W2]) for _ in range(rng.range(1, 5))]
            p = "/".join(parts)
        else:
            p = (rng.choice(inside) if inside else "sub") + "/" + rng.choice(["..", "../..", "../../" + O, ".", "", "../" + rng.choice(NAMES)])
        if rng.chance(1, 10):
            p += "/"
        if rng.chance(1, 15):
            p = p.replace("/", "//", 1)
        out.append(p)
    return out


def materialise(spec, root):
    os.mkdir(root)
    for name, n in spec.items():
        p = os.path.join(root, name)
        if n[0] == "dir":
            materialise(n[1], p)
        elif n[0] == "file":
            open(p, "w").close()
        else:
            os.symlink(n[1], p)


# ---- model side -------------------------------------------------------------------------------------
def g_bytes(s):
    return "(bs [" + "; ".join(str(b) for b in s.encode("utf-8")) + "])"


def node_coq(n):
    if n[0] == "file":
        return "NFile"
    if n[0] == "link":
        return "(NLink %s)" % g_bytes(n[1])
    return "(NDir [" + "; ".join("(%s, %s)" % (g_bytes(k), node_coq(v)) for k, v in n[1].items()) + "])"


IMPORTS = ("From Coq Require Import String Ascii List Bool Arith.\nImport ListNotations.\n"
           "From VP Require Import Path.Model Path.Run.\nOpen Scope string_scope.\n")


def decode_model(v):
    if not v.startswith("ok:"):
        return v
    comps = [bytes(int(x) for x in c.split(".")).decode("utf-8", "replace") if c else "" for c in v[3:].split("/")]
    return "ok:/" + "/".join(comps)


def impl_verdict(r):
    if "ok" in r:
        return "ok:" + r["ok"]
    if "ok_bytes" in r:
        return "ok_bytes:" + r["ok_bytes"]
    return {"traversal": "traversal", "invalid": "invalid", "workdir": "workdir"}.get(r["err"], "other:" + r.get("msg", ""))


# ---- oracle: the operating system's own view ---------------------------------------------------------
def judge(wd, p, r):
    """an accepted path must be the real location of the request and lie physically inside the real work directory"""
    if "ok" not in r:
        return []
    q = r["ok"]
    fails = []
    try:
        realwd = os.path.realpath(wd)
        if os.path.realpath(q) != q:
            fails.append("accepted path %r is not canonical (realpath gives %r)" % (q, os.path.realpath(q)))
        if not (q == realwd or q.startswith(realwd.rstrip("/") + "/")):
            fails.append("accepted path %r is outside the work directory %r" % (q, realwd))
        else:
            cur = realwd
            for c in [c for c in q[len(realwd):].split("/") if c]:
                cur = os.path.join(cur, c)
                st = os.lstat(cur)
                import stat
                if stat.S_ISLNK(st.st_mode):
                    fails.append("component %r of the accepted path is a symlink" % cur)
        requested = p if p.startswith("/") else wd + "/" + p
        if "\0" not in requested and os.path.realpath(requested) != q:
            fails.append("request %r resolves to %r but %r was returned" % (p, os.path.realpath(requested), q))
    except OSError as e:
        fails.append("accepted path %r cannot be inspected: %s" % (q, e))
    return fails


def run_tree(binpath, spec, base_name, wd_rel, paths):
    base = "/tmp/" + base_name
    shutil.rmtree(base, ignore_errors=True)
    try:
        materialise(spec, base)
        wd = base + "/" + wd_rel
        res = harness.run_jsonl(binpath, [{"mode": "path", "workdir": wd, "paths": paths}])[0]["results"]
        verdicts = [(impl_verdict(r), judge(wd, p, r)) for p, r in zip(paths, res)]
    finally:
        shutil.rmtree(base, ignore_errors=True)
    return verdicts


def chain_case(n):
    """l0 -> l1 -> ... -> l(n-1) -> f.txt inside the work directory: n symlinks on the way"""
    w = {"f.txt": ("file",)}
    for i in range(n):
        w["l%d" % i] = ("link", "l%d" % (i + 1) if i + 1 < n else "f.txt")
    return {W: ("dir", w), O: ("dir", {})}


def check(run):
    run.rule = ("random directory trees (depth <= 3, odd names: spaces, dots, non-ASCII, backslash, percent-escapes) under a fresh /tmp/path-* with symlinks "
                "relative/absolute, inside->outside, outside->inside, dangling, self/mutual loops, to '/', '..', '.', a work directory that is itself a symlink, "
                "symlink chains of 39/40/41 links; request strings: existing inside/outside paths, '..' walks, absolute, repeated/trailing slashes, file/'.' , NUL; "
                "non-trivial = tree with at least one accepted and one refused request; distinct = distinct (tree, work directory)")
    run.trusted += ["Coq 8.16.1 kernel + vm_compute",
                    "hand-written model coq/theories/Path/Model.v tied by differential run against security::validate_path on real directories",
                    "the operating system's realpath / lstat as oracle (os.path.realpath, os.lstat)",
                    "Rust harness harness/crates/api (mode path), Python driver (tree materialisation under /tmp/path-*, removed afterwards)"]
    run.assumptions += ["/tmp is a real directory (not a symlink)", "the tree is not modified between validation and use (no TOCTOU)", "path strings are valid UTF-8 (&str)"]
    binpath = T.build(run, ["theories/Path/Props.vo", "theories/Path/Run.vo"], "C31.v")
    if binpath is None:
        return
    if os.path.realpath("/tmp") != "/tmp":
        run.tie_broken("environment", "/tmp is a symlink; the model's root does not describe it")
        return
    rng = run.rng
    cases = []
    tag = "path-%d" % os.getpid()
    for n in (39, 40, 41):
        cases.append((chain_case(n), W, ["l0", "l1", "l%d" % (n - 1), "f.txt"]))
    ntrees = 45 if run.tier == "quick" else 500
    for i in range(ntrees):
        name = "%s-%d" % (tag, len(cases))
        spec = gen_tree(rng, name)
        wd_rel = rng.choice([W] * 6 + [WL] * 2 + [W + "/sub"] * 3 + ["missing"])
        cases.append((spec, wd_rel, gen_paths(rng, spec, "/tmp/" + name, 36)))
    exprs = []
    impl = []
    for i, (spec, wd_rel, paths) in enumerate(cases):
        name = "%s-%d" % (tag, i)       # the name the tree was generated for (absolute symlink targets mention it)
        impl.append(run_tree(binpath, spec, name, wd_rel, paths))
        root = ("dir", {"tmp": ("dir", {name: ("dir", spec)})})
        g_codes = lambda s: "[" + "; ".join(str(b) for b in s.encode("utf-8")) + "]"
        exprs.append("case %s %s [%s]" % (node_coq(root), g_codes("/tmp/" + name + "/" + wd_rel), "; ".join(g_codes(p) for p in paths)))
    model = None
    try:
        model = coqtools.coq_eval("C31", IMPORTS, exprs, shard=max(4, len(exprs) // 12 + 1), timeout=1500)
    except RuntimeError as e:
        run.tie_broken("model evaluation (coqc cases)", str(e))
    n_or = n_co = 0
    for i, ((spec, wd_rel, paths), vs) in enumerate(zip(cases, impl)):
        kinds = set(v.split(":")[0] for v, _ in vs)
        run.case(i if ("ok" in kinds and len(kinds) > 1) else None,
                 sample={"workdir": wd_rel, "tree": str(spec)[:300], "requests": paths[:6], "verdicts": [v for v, _ in vs[:6]]} if i in (3, 9) else None)
        run.count("workdir=" + wd_rel)
        mv = model[i].split("|") if model is not None else [None] * len(paths)
        for p, (v, fails), m in zip(paths, vs, mv):
            run.count("verdict=" + v.split(":")[0])
            run.count("request=" + ("absolute" if p.startswith("/") else "has-dotdot" if ".." in p.split("/") else "relative"))
            if fails:
                n_or += 1
                if n_or <= 3:
                    run.violation("; ".join(fails)[:700], {"tree": spec, "workdir": wd_rel, "path": p, "implementation": v,
                                                           "contradicts": "C31_inside in coq/theories/Path/Props.v"})
            if m is not None and decode_model(m) != v:
                n_co += 1
                if n_co <= 3:
                    run.tie_broken("correspondence Path/Model.v vs security::validate_path on tree %s workdir %s request %r" % (json.dumps(spec)[:600], wd_rel, p),
                                   "model %s, implementation %s" % (decode_model(m), v))
    run.extra["oracle_failures"] = n_or
    run.extra["disagreements"] = n_co


def replay(run, path):
    r = json.load(open(path))["replay"]
    ok, bindir, lg = harness.build(T.BIN)

    def tup(n):
        return tuple(n[:1]) + ((({k: tup(v) for k, v in n[1].items()},) if n[0] == "dir" else (n[1],)) if len(n) > 1 else ())
    spec = {k: tup(v) for k, v in r["tree"].items()}
    name = "path-replay-%d" % os.getpid()
    vs = run_tree(os.path.join(bindir, T.BIN), spec, name, r["workdir"], [r["path"]])
    run.case(("replay",), {"path": r["path"]})
    run.case(("replay2",))
    if vs[0][1]:
        run.violation("; ".join(vs[0][1])[:700], {"tree": r["tree"], "workdir": r["workdir"], "path": r["path"], "implementation": vs[0][0]})
