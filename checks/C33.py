"""C33 — pipelines are only placed on available workers and failures are detected."""
import json
import os

from checks import coord_common as C
from vplib import harness

META = {
    "technique": "Coq proof (per-operation theorems over the coordinator model: placement targets, affinity, sweep exactness, heartbeat recovery) "
                 "+ model/implementation differential on the real Coordinator over a virtual clock",
    "design_ref": "DESIGN.md §7 C33",
    "level_text": "Coq theorems: placement targets of deploy / migration / failover are available workers, pinned pipelines go to their available pinned worker, the sweep marks exactly the Ready workers older than the timeout and nothing else marks, a heartbeat recovers; no axioms. Model tied to the code by a differential run over a virtual clock on every check",
    "level_note": "Theorems are about coq/theories/Coord/Model.v (is_available, RoundRobin / LeastLoaded placement, affinity rule of plan_deploy_group, "
                  "plan_migrate_pipeline / migrate_pipeline target check, failover / drain / rebalance target choice, health_sweep, heartbeat), tied to the code by the "
                  "differential run. Time is a virtual clock in whole seconds realised by rewriting the public last_heartbeat field (timeout = T s + 0.5 s), so the "
                  "strict '>' of the sweep is exercised at age = T and T + 1, not at nanosecond resolution. HashMap orders are inputs. "
                  "Placement = plan time (the property's histories are sequences of atomic operations); k8s pod watcher (marks workers unhealthy directly) not modelled.",
}

CORPUS = [
    # manual migration onto an unhealthy worker (fixed d79d093)
    (3, [["register", 1, 4, 10, 0], ["register", 2, 4, 10, 0], ["plan_deploy", [[1, 1, 1]]], ["commit_deploy", 0, [True]], ["advance", 4], ["heartbeat", 1, None],
         ["sweep"], ["plan_migrate", 16, 0, 2], ["commit_migrate", 1, True]]),
    # ... onto a draining worker is impossible sequentially (drain deregisters); onto a full worker
    (3, [["register", 1, 4, 10, 0], ["register", 2, 4, 1, 0], ["plan_deploy", [[1, 1, 1], [2, 2, 1]]], ["commit_deploy", 0, [True, True]], ["plan_migrate", 16, 0, 2]]),
    # migration onto a draining worker (status written by sync_from_raft)
    (3, [["register", 1, 4, 10, 0], ["register", 2, 4, 10, 0], ["plan_deploy", [[1, 1, 1]]], ["commit_deploy", 0, [True]], ["set_status", 2, "D"],
         ["plan_migrate", 16, 0, 2], ["heartbeat", 2, None], ["sweep"], ["failover", 1, [True]]]),
    # boundary of the sweep: age = timeout is healthy, timeout + 1 is not
    (3, [["register", 1, 4, 10, 0], ["advance", 3], ["sweep"], ["advance", 1], ["sweep"], ["heartbeat", 1, None], ["sweep"]]),
    # pinned pipeline with the pinned worker available / unhealthy / full
    (2, [["register", 1, 4, 10, 0], ["register", 2, 4, 10, 0], ["register", 3, 4, 1, 0], ["plan_deploy", [[1, 3, 1], [2, 3, 1]]], ["commit_deploy", 0, [True, True]],
         ["advance", 3], ["heartbeat", 1, None], ["heartbeat", 3, None], ["sweep"], ["plan_deploy", [[1, 2, 1], [3, 1, 2]]]]),
]


class Gen33(C.Gen):
    def __init__(self, rng, timeout):
        super().__init__(rng, known_ops=True, dishonest=rng.chance(1, 5), interleave=False, workers=[1, 2, 3, 4])
        self.timeout = timeout
        self.since = 0

    def random_op(self):
        r = self.rng
        x = r.below(100)
        if x < 22:
            # aim at the boundary: total time since the last burst of heartbeats hits timeout / timeout + 1
            d = r.choice([1, 1, 2, max(1, self.timeout - self.since), max(1, self.timeout + 1 - self.since)])
            self.since += d
            self.ops.append(["advance", d])
        elif x < 38:
            self.ops.append(["sweep"])
        elif x < 52:
            if r.chance(1, 3):
                self.since = 0
                for w in self.workers:
                    if r.chance(2, 3):
                        self.ops.append(["heartbeat", w, None])
            else:
                self.ops.append(["heartbeat", self.w(), r.below(4) if self.dishonest and r.chance(1, 2) else None])
        elif x < 57:
            self.ops.append(["set_status", self.w(), r.choice(["D", "D", "U", "R", "G"])])
        elif x < 66:
            self.plan_deploy()
            self.commit(len(self.plans) - 1)
        elif x < 78:
            self.ops.append(["plan_migrate", self.p(), self.g(), self.w()])
            self.plans.append(("M",))
            self.commit(len(self.plans) - 1)
        else:
            super().random_op()


def gen_cases(run):
    rng = run.rng
    cases = list(CORPUS)
    n = 450 if run.tier == "quick" else 12000
    for i in range(n):
        t = rng.range(2, 6)
        g = Gen33(rng.fork(), t)
        cases.append((t, g.history(rng.range(6, 16))))
    return cases


def check(run):
    run.rule = ("histories of 8-30 coordinator operations over a virtual clock (advance aimed at heartbeat age = timeout and timeout + 1, heartbeats, sweeps, "
                "deploys with affinities incl. unknown / unhealthy / full pinned workers, manual migrations onto arbitrary workers, failover, drain, rebalance, "
                "register / deregister) over <=4 workers, timeouts 2-6; non-trivial = history has a sweep that marks a worker or a placement request after a status change; "
                "distinct = distinct op list")
    run.trusted += ["Coq 8.16.1 kernel + vm_compute",
                    "hand-written model coq/theories/Coord/Model.v tied by differential run (statuses, heartbeat ages, plans, placements compared after every step)",
                    "HashMap iteration orders of the Coordinator are read from the implementation and passed to the model as inputs",
                    "Rust harness harness/crates/coord (virtual clock = rewriting the public WorkerNode.last_heartbeat; loopback stub for the workers' deploy endpoint)",
                    "Python driver checks/coord_common.py (generators, oracle c33_judge)"]
    run.assumptions += ["clock granularity 1 s (timeout T is configured as T + 0.5 s; wall-clock drift per operation < 0.5 s)",
                        "load ratios of LeastLoaded compared as exact rationals (f64 division is exact enough for the explored counts)"]
    binpath = C.build_all(run, ["theories/Coord/Props.vo"], "C33.v")
    if binpath is None:
        return
    cases = gen_cases(run)
    answers = C.run_impl(binpath, cases)
    model = C.run_model(run, "C33", cases, answers)
    n_or = n_corr = 0
    for k, ((t, ops), ans, sm) in enumerate(zip(cases, answers, model)):
        si = C.impl_str(ans)
        kinds = C.kinds(ops)
        nontrivial = None
        marked = any(s["res"].startswith("sweep:") and len(s["res"]) > 6 for s in ans.get("steps", []))
        if marked or ("sweep" in kinds and any(x in kinds for x in ("plan_migrate", "failover", "drain"))):
            nontrivial = json.dumps(ops)
        run.case(nontrivial, sample={"timeout": t, "ops": ops, "impl": si[-300:]} if k in (0, len(CORPUS) + 1) else None)
        run.count("timeout=%d" % t)
        for o in set(kinds):
            run.count("op=" + o)
        for s in ans.get("steps", []):
            if s["res"].startswith("sweep:"):
                run.count("sweep-marks" if len(s["res"]) > 6 else "sweep-clean")
            if s["res"] == "err:unavailable":
                run.count("migration-target-refused")
            for w in s["state"]["workers"]:
                pass
        # boundary coverage
        prev = C.EMPTY
        for o, s in zip(ops, ans.get("steps", [])):
            if o[0] == "sweep":
                for w in prev["workers"]:
                    if w["st"] == "R" and w["age"] == t:
                        run.count("sweep-age=timeout")
                    if w["st"] == "R" and w["age"] == t + 1:
                        run.count("sweep-age=timeout+1")
            if o[0] == "heartbeat":
                for w in prev["workers"]:
                    if w["id"] == o[1]:
                        run.count("heartbeat-on-" + w["st"])
            if o[0] == "plan_deploy":
                for l, a, r in o[1]:
                    if a is not None:
                        pw = C.wmap(prev).get(a)
                        run.count("affinity-" + ("unknown" if pw is None else ("available" if pw["available"] else "unavailable-" + pw["st"])))
            prev = s["state"]
        fails = C.c33_judge(t, ops, ans)
        if fails:
            run.count("oracle_fail")
            n_or += 1
            if len(run.violations) < 3:
                def still(c):
                    a = C.run_impl(binpath, [(t, c)])[0]
                    return bool(C.c33_judge(t, c, a))
                small = C.shrink_ops(ops, still)
                a = C.run_impl(binpath, [(t, small)])[0]
                f = C.c33_judge(t, small, a)
                run.violation("; ".join(f)[:600], {"timeout": t, "ops": small, "implementation": [s["res"] + "~" + C.state_str(s["state"]) for s in a.get("steps", [])],
                                                  "contradicts": "C33 theorems in coq/theories/Coord/Props.v"})
        if sm is not None and si != sm:
            n_corr += 1
            if n_corr <= 3:
                run.tie_broken("correspondence Coord/Model.v vs crates/varpulis-cluster coordinator on timeout %d %s" % (t, json.dumps(ops)), C.first_diff(si, sm))
    # ---- through the REST handlers of api.rs (handle_manual_migrate, handle_deploy_group, handle_heartbeat, ...)
    rng = run.rng
    acases = [(t, C.to_api_ops(ops)) for t, ops in CORPUS]
    for i in range(150 if run.tier == "quick" else 3000):
        t = rng.range(2, 6)
        g = Gen33(rng.fork(), t)
        g.dishonest = False
        acases.append((t, C.to_api_ops(g.history(rng.range(6, 14)))))
    aanswers = C.run_impl_api(binpath, acases)
    amodel = C.run_model_api(run, "C33api", acases, aanswers)
    for k, ((t, ops), ans, sm) in enumerate(zip(acases, aanswers, amodel)):
        si = C.impl_str(ans)
        kinds = C.kinds(ops)
        run.case(("api", json.dumps(ops)) if "sweep" in kinds and any(x in kinds for x in ("manual_migrate", "deploy")) else None)
        run.count("via=api")
        for s in ans.get("steps", []):
            if s["res"] == "err:unavailable":
                run.count("api-migration-target-refused")
        fails = C.c33_judge(t, ops, ans)
        if fails:
            run.count("oracle_fail")
            n_or += 1
            if len(run.violations) < 3:
                run.violation("; ".join(fails)[:600], {"via": "api", "timeout": t, "ops": ops, "implementation": [s["res"] + "~" + C.state_str(s["state"]) for s in ans.get("steps", [])],
                                                     "contradicts": "C33 theorems in coq/theories/Coord/Props.v"})
        if sm is not None and si != sm:
            n_corr += 1
            if n_corr <= 3:
                run.tie_broken("correspondence Coord/Model.v vs crates/varpulis-cluster api.rs handlers on timeout %d %s" % (t, json.dumps(ops)), C.first_diff(si, sm))
    run.extra["oracle_failures"] = n_or
    run.extra["disagreements"] = n_corr


def replay(run, path):
    r = json.load(open(path))["replay"]
    ok, bindir, lg = harness.build("vp-coord")
    binpath = os.path.join(bindir, "vp-coord")
    a = (C.run_impl_api if r.get("via") == "api" else C.run_impl)(binpath, [(r["timeout"], r["ops"])])[0]
    f = C.c33_judge(r["timeout"], r["ops"], a)
    run.case(("replay",), {"ops": r["ops"]})
    run.case(("replay2",))
    if f:
        run.violation("; ".join(f)[:600], {"timeout": r["timeout"], "ops": r["ops"], "implementation": C.impl_str(a)})
