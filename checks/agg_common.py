"""Shared machinery for C14 (crates/varpulis-runtime/src/{aggregation,simd,columnar}.rs).

Pipeline: Coq build + audit -> harness build -> generate event batches + aggregate lists ->
run the implementation on its three paths (row / shared / columnar, also warm-cache and push-filled
columnar buffers) -> run the rational model (vm_compute) on its three paths + the Coq specification
function -> independent exact oracle in Python (fractions.Fraction, the mathematical definitions) ->
compare.

Values (python side): ("missing",) ("null",) ("bool", b) ("str", k) ("int", z) ("float", bits) ("nan", bits)
Aggregate specs:      (kind, field) | ("ema", field, period, raw) | ("expr", op, lspec, rspec)
Fields: "value" (id 0, the default when field is None), "x" (1), "y" (2).
"""
import json
import math
import os
import struct
from fractions import Fraction

from vplib import coqtools, harness

IMPORTS = ("From Coq Require Import QArith String List.\nFrom VP Require Import Base.Render Agg.Model Agg.Spec Agg.Run.\n"
           "Import ListNotations.\nOpen Scope string_scope.\n")
FIELDS = {"value": 0, "x": 1, "y": 2}
U = Fraction(1, 2 ** 53)            # unit roundoff of binary64
SIMPLE = ["count", "sum", "avg", "min", "max", "stddev", "first", "last", "count_distinct"]
CTOR = {"count": "ACount", "sum": "ASum", "avg": "AAvg", "min": "AMin", "max": "AMax", "stddev": "AStdDev",
        "first": "AFirst", "last": "ALast", "count_distinct": "ACountDistinct"}
SPEC_MAX = 6      # the Coq specification function is printed next to the model for batches up to this length
OPS = {"add": "Add", "sub": "Sub", "mul": "Mul", "div": "Div"}


# ------------------------------------------------------------------ floats
def f_of_bits(bits):
    return struct.unpack("<d", struct.pack("<Q", bits))[0]


def bits_of_f(x):
    return struct.unpack("<Q", struct.pack("<d", x))[0]


def frac_of_bits(bits):
    return Fraction(f_of_bits(bits))


def is_nan_bits(bits):
    return (bits >> 52) & 0x7FF == 0x7FF and bits & ((1 << 52) - 1) != 0


# ------------------------------------------------------------------ rendering
def tagged(v):
    k = v[0]
    if k == "null":
        return {"n": None}
    if k == "bool":
        return {"b": bool(v[1])}
    if k == "str":
        return {"s": "s%d" % v[1]}
    if k == "int":
        return {"i": str(v[1])}
    if k in ("float", "nan"):
        return {"f": str(v[1])}
    raise ValueError(v)


def other_id(v):
    """id of a non-numeric value in the model: distinct ids <=> distinct Value hash classes"""
    if v[0] == "bool":
        return 1 + int(bool(v[1]))
    if v[0] == "str":
        return 3 + v[1]
    raise ValueError(v)


def g_Q(fr):
    return "(Qmake (%d)%%Z %d%%positive)" % (fr.numerator, fr.denominator)


def g_fval(v):
    k = v[0]
    if k == "null":
        return "VNull"
    if k in ("bool", "str"):
        return "(VOther %d%%N)" % other_id(v)
    if k == "int":
        return "(VInt (%d)%%Z)" % v[1]
    if k == "float":
        return "(VFloat %s)" % g_Q(frac_of_bits(v[1]))
    if k == "nan":
        return "VNaN"
    raise ValueError(v)


def g_event(ev):
    return "[" + "; ".join("(%d%%N, %s)" % (FIELDS[f], g_fval(v)) for f, v in ev if v[0] != "missing") + "]"


def g_field(f):
    return "None" if f is None else "(Some %d%%N)" % FIELDS[f]


def g_agg(spec):
    k = spec[0]
    if k == "ema":
        return "(AEma (%d)%%Z)" % eff_period(spec)
    if k == "expr":
        return "(AExpr %s %s %s %s %s)" % (g_agg(spec[2]), g_field(spec_field(spec[2])), OPS[spec[1]], g_agg(spec[3]), g_field(spec_field(spec[3])))
    return CTOR[k]


def eff_period(spec):
    """Ema::new clamps with max(1); a raw `Ema { period }` does not"""
    return spec[2] if spec[3] else max(spec[2], 1)


def spec_field(spec):
    return None if spec[0] == "expr" else spec[1]


MODEL_PATHS = ["PRow", "PRefs", "PCol"]


def model_path(case_index, agg_index):
    """which model path is evaluated for this aggregate (rotation; the three are provably equal)"""
    return (case_index + agg_index) % 3


def g_case(avx, events, aggs, case_index=0):
    return "agg_case %s %s [%s] [%s]" % ("true" if avx else "false", "true" if len(events) <= SPEC_MAX else "false", "; ".join(g_event(e) for e in events),
                                      "; ".join("(%s, %s, %s)" % (g_agg(a), g_field(spec_field(a)), MODEL_PATHS[model_path(case_index, i)]) for i, a in enumerate(aggs)))


def j_spec(spec):
    k = spec[0]
    if k == "ema":
        return {"k": "ema", "f": spec[1], "p": spec[2], "raw": bool(spec[3])}
    if k == "expr":
        return {"k": "expr", "op": spec[1], "l": j_spec(spec[2]), "r": j_spec(spec[3])}
    return {"k": k, "f": spec[1]}


def j_case(events, aggs):
    return {"events": [[[f, tagged(v)] for f, v in ev if v[0] != "missing"] for ev in events], "aggs": [j_spec(a) for a in aggs]}


# ------------------------------------------------------------------ oracle (mathematical definitions, exact)
# expected result objects:
#   ("null",) ("int", z) ("nan",) ("other", id) ("num", value, tol) ("sqrt", var, tol_var) ("skip", why)
def field_values(events, f):
    f = f or "value"
    out = []
    for ev in events:
        d = dict(ev)
        out.append(d.get(f, ("missing",)))
    return out


def numeric(vs):
    """numeric reading of the present values: Fraction or 'nan'"""
    out = []
    for v in vs:
        if v[0] == "int":
            out.append(Fraction(v[1]))
        elif v[0] == "float":
            out.append(frac_of_bits(v[1]))
        elif v[0] == "nan":
            out.append("nan")
    return out


def val_result(v):
    k = v[0]
    if k in ("missing", "null"):
        return ("null",)
    if k in ("bool", "str"):
        return ("other", other_id(v))
    if k == "int":
        return ("int", v[1])
    if k == "float":
        return ("num", frac_of_bits(v[1]), Fraction(0))
    return ("nan",)


def hash_class(v):
    k = v[0]
    if k == "float":
        return ("float", frac_of_bits(v[1]))      # -0.0 and 0.0 share a class
    if k == "nan":
        return ("nan",)
    return v


def fsqrt(fr):
    """float square root of a non-negative Fraction, robust for huge numerators"""
    if fr == 0:
        return 0.0
    return math.sqrt(fr.numerator) / math.sqrt(fr.denominator) if fr.numerator.bit_length() < 1000 and fr.denominator.bit_length() < 1000 else math.sqrt(float(fr))


def expected(spec, events):
    k = spec[0]
    if k == "expr":
        return combine(spec[1], expected(spec[2], events), expected(spec[3], events))
    vs = field_values(events, spec[1])
    if k == "count":
        return ("int", len(events))
    if k == "first":
        return val_result(vs[0]) if vs else ("null",)
    if k == "last":
        return val_result(vs[-1]) if vs else ("null",)
    if k == "count_distinct":
        return ("int", len({hash_class(v) for v in vs if v[0] != "missing"}))
    xs = numeric(vs)
    good = [x for x in xs if x != "nan"]
    n = len(good)
    sabs = sum((abs(x) for x in good), Fraction(0))
    if k == "sum":
        return ("num", sum(good, Fraction(0)), 2 * n * U * sabs)
    if k == "avg":
        if not good:
            return ("null",)
        a = sum(good, Fraction(0)) / n
        return ("num", a, 2 * n * U * sabs / n + 2 * U * abs(a))
    if k == "min":
        return ("num", min(good), Fraction(0)) if good else ("null",)
    if k == "max":
        return ("num", max(good), Fraction(0)) if good else ("null",)
    if k == "stddev":
        if len(xs) < 2:
            return ("null",)
        if n != len(xs):
            return ("nan",)
        mu = sum(good, Fraction(0)) / n
        S = sum(((x - mu) ** 2 for x in good), Fraction(0))
        sq = sum((x * x for x in good), Fraction(0))
        # Welford / West updating formula: |S' - S| <~ n u kappa S, kappa = ||x|| / sqrt(S)  (Chan, Golub, LeVeque 1983)
        tol_S = 8 * n * U * (S + Fraction(fsqrt(S * sq))) + 8 * n * n * U * U * sq
        var = S / (n - 1)
        return ("sqrt", var, tol_S / (n - 1) + 4 * U * var)
    if k == "ema":
        if not xs:
            return ("null",)
        if n != len(xs):
            return ("nan",)
        kk = Fraction(2, eff_period(spec) + 1)
        # closed form: (1-k)^(n-1) x1 + sum_{i>=2} k (1-k)^(n-i) xi
        e = (1 - kk) ** (n - 1) * good[0] + sum((kk * (1 - kk) ** (n - i) * good[i - 1] for i in range(2, n + 1)), Fraction(0))
        w = max(1, abs(1 - kk)) ** n                    # raw period 0 gives k = 2, |1-k| = 1: still bounded
        return ("num", e, 8 * (n + 1) * U * max(abs(x) for x in good) * max(1, kk) * w)
    raise ValueError(spec)


def as_num(e):
    """(value, tol) of a numeric expected object, or None / 'skip'"""
    if e[0] == "num":
        return e[1], e[2], "f"
    if e[0] == "int":
        return Fraction(e[1]), Fraction(0), "i"
    if e[0] == "sqrt":
        var, tv = e[1], e[2]
        if var == 0 and tv == 0:
            return Fraction(0), Fraction(0), "f"
        if var <= 0 or tv * 4 >= var:
            return "skip"
        s = Fraction(fsqrt(var))
        return s, tv / s + 8 * U * s, "f"
    return None


def combine(op, L, R):
    if L[0] == "skip" or R[0] == "skip":
        # a skipped operand still decides Null-ness only together with the other side; keep it simple: skip
        return ("skip", "ill-conditioned operand")
    lnum = L[0] in ("num", "int", "sqrt", "nan")
    rnum = R[0] in ("num", "int", "sqrt", "nan")
    if not (lnum and rnum):
        return ("null",)
    if L[0] == "int" and R[0] == "int":
        l, r = L[1], R[1]
        if op == "add":
            z = l + r
        elif op == "sub":
            z = l - r
        elif op == "mul":
            z = l * r
        else:
            z = 0 if r == 0 else (abs(l) // abs(r)) * (1 if (l >= 0) == (r >= 0) else -1)
        if not -2 ** 63 <= z < 2 ** 63:
            return ("skip", "i64 overflow")
        return ("int", z)
    if L[0] == "nan" or R[0] == "nan":
        return ("nan",)
    a, b = as_num(L), as_num(R)
    if a == "skip" or b == "skip":
        return ("skip", "ill-conditioned square root operand")
    (l, tl, _), (r, tr, _) = a, b
    if op == "add":
        v = l + r
        return ("num", v, tl + tr + 2 * U * (abs(l) + abs(r)))
    if op == "sub":
        v = l - r
        return ("num", v, tl + tr + 2 * U * (abs(l) + abs(r)))
    if op == "mul":
        v = l * r
        return ("num", v, abs(l) * tr + abs(r) * tl + tl * tr + 2 * U * abs(v))
    # div: `if r != 0.0 { l / r } else { NAN }`
    if r == 0 and tr == 0:
        return ("nan",)
    if abs(r) <= 4 * tr:
        return ("skip", "divisor within rounding distance of zero")
    v = l / r
    return ("num", v, (tl + abs(v) * tr) / (abs(r) - tr) + 2 * U * abs(v))


def impl_obj(j):
    """tagged JSON value from the harness -> comparable object"""
    (k, v), = j.items()
    if k == "n":
        return ("null",)
    if k == "i":
        return ("int", int(v))
    if k == "f":
        b = int(v)
        if is_nan_bits(b):
            return ("nan",)
        if (b >> 52) & 0x7FF == 0x7FF:
            return ("inf", b >> 63)
        return ("num", frac_of_bits(b))
    if k == "b":
        return ("other", 1 + int(bool(v)))
    if k == "s":
        return ("other", 3 + int(v[1:]))
    return ("weird", json.dumps(j))


def judge_one(exp, got):
    """None if the implementation value `got` is acceptable for expected object `exp`, else a message; also returns err/tol ratio"""
    if exp[0] == "skip":
        return None, None
    if exp[0] in ("null", "nan"):
        return (None if got[0] == exp[0] else "expected %s, got %s" % (exp[0], show(got))), None
    if exp[0] in ("int", "other"):
        return (None if got == exp else "expected %s, got %s" % (show(exp), show(got))), None
    if got[0] != "num":
        return "expected a number near %s, got %s" % (show(exp), show(got)), None
    if exp[0] == "num":
        err, tol = abs(got[1] - exp[1]), exp[2]
    else:   # sqrt: compare squares
        err, tol = abs(got[1] * got[1] - exp[1]), exp[2]
        if got[1] < 0:
            return "negative standard deviation %s" % show(got), None
    if err <= tol:
        return None, (float(err / tol) if tol else 0.0)
    return "expected %s, got %s (error %.3e > tolerance %.3e)" % (show(exp), show(got), float(err), float(tol)), None


def show(o):
    if o[0] == "num":
        return "%r" % float(o[1])
    if o[0] == "sqrt":
        return "sqrt(%r)" % float(o[1])
    return "/".join(str(x) for x in o)


def same_across_paths(kind, a, b):
    """two implementation results of the same aggregate on different paths"""
    if a == b:
        return True
    return False


# ------------------------------------------------------------------ model strings
def parse_model(s):
    """'value|spec;...' -> list of pairs of objects"""
    out = []
    for part in s.split(";"):
        out.append(tuple(parse_res(x) for x in part.split("|")))
    return out


def parse_res(s):
    if s == "-":
        return ("unmodelled",)
    if s == "N":
        return ("null",)
    if s == "NaN":
        return ("nan",)
    if s == "U":
        return ("unmodelled",)
    if s == "INF":
        return ("inf",)
    if s[0] == "I":
        return ("int", int(s[1:]))
    if s[0] == "O":
        return ("other", int(s[1:]))
    n, d = s[1:].split("/")
    return ("num" if s[0] == "Q" else "sqrt", Fraction(int(n), int(d)))


def model_matches_oracle(m, exp):
    """exact agreement between the Coq model value and the Python oracle value"""
    if m[0] == "unmodelled" or exp[0] == "skip":
        return True
    if exp[0] in ("num", "sqrt"):
        return m[0] == exp[0] and m[1] == exp[1]
    return m == exp


# ------------------------------------------------------------------ generation
LENS = [0, 1, 2, 3, 4, 5, 6, 7, 8, 9, 10, 11, 12, 13, 14, 15, 16, 17, 18, 19, 20, 21, 22, 23, 24, 25, 28, 30, 31, 32, 33, 34, 36, 40, 47, 48, 49, 50, 56, 60, 62, 63, 64]
NANS = [0x7FF8000000000000, 0xFFF8000000000000, 0x7FF0000000000001, 0x7FFFFFFFFFFFFFFF]


def gen_float(rng, style):
    if style == "smallint":
        return bits_of_f(float(rng.range(-50, 50)))
    if style == "decimal":
        return bits_of_f(rng.range(-100000, 100000) / 100.0)
    if style == "wide":
        m = rng.range(1, 2 ** 53 - 1)
        e = rng.range(-60, 20)
        return bits_of_f(math.ldexp(m, e - 52) * (1 if rng.chance(1, 2) else -1))
    if style == "big":
        return bits_of_f(rng.choice([1e15, -1e15, 1e12, 3.0, -2.5, 1e-3]) * rng.range(1, 9))
    if style == "near":
        return bits_of_f(1000000.0 + rng.range(-1000, 1000) / 1024.0)
    if style == "zero":
        return rng.choice([0, 1 << 63])
    raise ValueError(style)


def gen_value(rng, profile, style):
    """profile: weights for float / int / nan / str / missing / null / bool"""
    r = rng.below(100)
    acc = 0
    for kind, w in profile:
        acc += w
        if r < acc:
            break
    if kind == "float":
        if rng.chance(1, 25):
            return ("float", gen_float(rng, "zero"))
        return ("float", gen_float(rng, style))
    if kind == "int":
        if style in ("wide", "big") and rng.chance(1, 3):
            return ("int", rng.range(-2 ** 53, 2 ** 53))
        return ("int", rng.range(-1000, 1000))
    if kind == "nan":
        return ("nan", rng.choice(NANS))
    if kind == "str":
        return ("str", rng.below(4))
    if kind == "null":
        return ("null",)
    if kind == "bool":
        return ("bool", rng.below(2))
    return ("missing",)


PROFILES = {
    "floats": [("float", 100)],
    "ints": [("int", 100)],
    "numeric": [("float", 60), ("int", 40)],
    "mixed": [("float", 35), ("int", 20), ("nan", 12), ("str", 12), ("missing", 12), ("null", 5), ("bool", 4)],
    "sparse": [("float", 10), ("int", 5), ("nan", 10), ("str", 25), ("missing", 45), ("null", 5)],
    "nan_missing": [("float", 50), ("nan", 25), ("missing", 25)],
    "all_nan": [("nan", 100)],
    "all_missing": [("missing", 100)],
    "strings": [("str", 80), ("null", 10), ("bool", 10)],
}
PROFILE_PICK = ["floats", "ints", "numeric", "numeric", "mixed", "mixed", "mixed", "sparse", "nan_missing", "nan_missing", "all_nan", "all_missing", "strings"]
STYLES = ["smallint", "decimal", "decimal", "wide", "big", "near"]
SUB = ["count", "sum", "avg", "min", "max", "stddev", "first", "last", "count_distinct", "ema"]


def gen_sub(rng):
    k = rng.choice(SUB)
    f = rng.choice([None, "x", "y", "value"])
    if k == "ema":
        return ("ema", f, rng.range(1, 9), 0)
    return (k, f)


def gen_case(rng, n=None):
    n = rng.choice(LENS) if n is None else n
    prof = {f: rng.choice(PROFILE_PICK) for f in FIELDS}
    style = {f: rng.choice(STYLES) for f in FIELDS}
    events = []
    for _ in range(n):
        ev = []
        for f in rng.shuffle(list(FIELDS)):
            ev.append((f, gen_value(rng, PROFILES[prof[f]], style[f])))
        events.append(ev)
    aggs = []
    for f in (None, "x"):
        for k in SIMPLE:
            aggs.append((k, f))
        aggs.append(("ema", f, rng.range(0, 12), 0))
    aggs.append(("ema", "y", rng.range(0, 3), 1))
    aggs.append((rng.choice(SIMPLE), "y"))
    for _ in range(4):
        aggs.append(("expr", rng.choice(list(OPS)), gen_sub(rng), gen_sub(rng)))
    if rng.chance(1, 3):
        aggs.append(("expr", rng.choice(list(OPS)), ("expr", rng.choice(list(OPS)), gen_sub(rng), gen_sub(rng)), gen_sub(rng)))
    return {"events": events, "aggs": aggs, "profile": prof, "style": style}


def fixed_cases():
    """the shapes the property text names, deterministic"""
    fl = lambda x: ("float", bits_of_f(x))
    out = []
    for n in (3, 4, 5, 7, 8, 9):
        # 1..n: a dropped remainder element or lane shows immediately
        out.append({"events": [[("value", fl(float(i + 1))), ("x", ("int", 10 * (i + 1)))] for i in range(n)],
                    "aggs": [(k, f) for f in (None, "x") for k in SIMPLE] + [("ema", None, 3, 0)], "profile": {"value": "fixed"}, "style": {}})
    # NaN / missing / string at every position of a 5-element batch
    for bad in (("nan", NANS[0]), ("missing",), ("str", 1)):
        for pos in range(5):
            evs = [[("value", fl(float(i + 1)) if i != pos else bad)] for i in range(5)]
            out.append({"events": evs, "aggs": [(k, None) for k in SIMPLE] + [("ema", None, 2, 0)], "profile": {"value": "fixed-" + bad[0]}, "style": {}})
    return out


# ------------------------------------------------------------------ running
def build_all(run, targets, audit_file, allow=()):
    coqtools.prove(run, targets, audit_file, allow)
    okb, bindir, blog = harness.build("vp-agg")
    if not okb:
        run.tie_broken("harness build vp-agg", blog[-3000:])
        return None
    return os.path.join(bindir, "vp-agg")


IMPL_PATHS = ["row", "shared", "col", "col2", "colpush"]


def judge_case(case, ans):
    """Oracle: every path's value against the mathematical definition; the paths against each other.
    Returns (failures [(category, message)], max err/tol ratio, skipped count)."""
    fails = []
    worst = 0.0
    skipped = 0
    if "panic" in ans:
        return [("panic", "implementation panicked: " + ans["panic"])], 0.0, 0
    for i, spec in enumerate(case["aggs"]):
        exp = expected(spec, case["events"])
        if exp[0] == "skip":
            skipped += 1
        got = {p: impl_obj(ans[p][i]) for p in IMPL_PATHS}
        for j, p in enumerate(("direct_row", "direct_refs", "direct_col")):
            got[p] = impl_obj(ans["direct"][i][j])
        for p, g in got.items():
            msg, ratio = judge_one(exp, g)
            if msg:
                fails.append(("value", "%s on path %s: %s" % (spec_name(spec), p, msg)))
            elif ratio is not None:
                worst = max(worst, ratio)
        # the paths must return the same result (same code on the same filtered values: identical)
        base = got["row"]
        for p, g in got.items():
            if g != base:
                if exp[0] in ("num", "sqrt") and g[0] == "num" and base[0] == "num":
                    # allowed to differ by reassociation only: both already judged within tolerance above
                    if judge_one(exp, g)[0] is None and judge_one(exp, base)[0] is None:
                        continue
                if exp[0] == "skip" and g[0] == base[0] == "num":
                    continue
                fails.append(("paths", "%s: path row gives %s, path %s gives %s" % (spec_name(spec), show(base), p, show(g))))
    return fails, worst, skipped


def spec_name(spec):
    if spec[0] == "expr":
        return "(%s %s %s)" % (spec_name(spec[2]), spec[1], spec_name(spec[3]))
    if spec[0] == "ema":
        return "ema%s(%s)" % ("{period:%d}" % spec[2] if spec[3] else "(%d)" % spec[2], spec[1] or "<default>")
    return "%s(%s)" % (spec[0], spec[1] or "<default>")


def compare_model(case, ans, mstr, case_index=0):
    """Correspondence: model (one path per aggregate, in rotation) vs implementation (each path) within the stated
    tolerance; model vs Coq spec vs Python oracle exactly. Returns list of messages."""
    msgs = []
    if "panic" in ans:
        return msgs
    rows = parse_model(mstr)
    if len(rows) != len(case["aggs"]):
        return ["model printed %d results for %d aggregates" % (len(rows), len(case["aggs"]))]
    for i, (spec, (m, mspec)) in enumerate(zip(case["aggs"], rows)):
        exp = expected(spec, case["events"])
        pname = MODEL_PATHS[model_path(case_index, i)]
        if not model_matches_oracle(m, exp):
            msgs.append("%s: model path %s = %s but the mathematical definition gives %s" % (spec_name(spec), pname, show(m), show(exp)))
        if spec[0] != "expr" and not model_matches_oracle(mspec, exp):
            msgs.append("%s: Coq spec function = %s but the Python oracle gives %s" % (spec_name(spec), show(mspec), show(exp)))
        if exp[0] == "skip" or m[0] == "unmodelled":
            continue
        tol = exp[2] if exp[0] in ("num", "sqrt") else None
        mexp = m + (tol,) if m[0] in ("num", "sqrt") else m
        for ip in ("row", "shared", "col"):
            msg, _ = judge_one(mexp, impl_obj(ans[ip][i]))
            if msg:
                msgs.append("%s: model (path %s) vs implementation path %s: %s" % (spec_name(spec), pname, ip, msg))
    return msgs


def case_json(case):
    return {"events": [[[f, list(v)] for f, v in ev] for ev in case["events"]], "aggs": case["aggs"]}


def case_from_json(j):
    def tup(x):
        return tuple(tup(y) if isinstance(y, list) else y for y in x)
    return {"events": [[(f, tuple(v)) for f, v in ev] for ev in j["events"]], "aggs": [tup(a) for a in j["aggs"]], "profile": {}, "style": {}}


def shrink(case, still_fails):
    """drop aggregates, then events, then fields, while the failure persists"""
    cur = case
    for key in ("aggs", "events"):
        changed = True
        while changed:
            changed = False
            for i in range(len(cur[key]) - 1, -1, -1):
                cand = dict(cur)
                cand[key] = cur[key][:i] + cur[key][i + 1:]
                if cand["aggs"] and still_fails(cand):
                    cur = cand
                    changed = True
    return cur
