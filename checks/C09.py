"""C09 — a filter selects the same events in a stream `.where` and in a sequence-pattern step."""
import json
import os

from checks import cmp_common as C
from vplib import harness

META = {
    "technique": "Coq proof (induction on the filter) that the VPL evaluator and the SASE predicate translation+evaluation accept the same events "
                 "outside two recorded disagreement classes, over arm tables regenerated from the Rust source + model/impl differential on both "
                 "evaluators + agreement oracle, also through real Engine programs (filter stream vs sequence step)",
    "level_text": "machine-checked proof (Coq 8.16.1 + Flocq) about an executable model tied to the source by a translator and a differential run",
    "level_note": "Proved: for every filter built from field/literal comparisons, bare fields, literals, and/or/not (any depth) and every event with "
                  "null/bool/int/float/string/missing fields, where_accepts = step_accepts unless the input is in one of the two known classes "
                  "(`not` over a sub-filter without boolean value; `or` with a side without boolean value), each refuted by a vm_compute witness that is "
                  "replayed on the implementation every run. Partial: references to earlier captured events (CompareRef), arithmetic/calls inside filters, "
                  "timestamps/durations/arrays/maps are not modelled; the Engine-level equivalence (parser, NFA, emit) is tested, not proved.",
    "design_ref": "DESIGN.md §7 C09",
}

CLASS_NOT = "C09-not-over-valueless"
CLASS_OR = "C09-or-with-valueless-side"

INT_LITS = [0, 3, 5, 30, 31, C.P53 + 1, C.P63 - 1]
FLT_LITS = [3.0, 0.3, 0.1 + 0.2, 30.0, 31.5, 5.000000000000001, float(C.P53), 0.0, 1e300]
STR_LITS = ["a", "b", "m", "abc", ""]


def gen_lit(rng):
    k = rng.below(10)
    if k < 4:
        return C.I(rng.choice(INT_LITS))
    if k < 7:
        return C.F(rng.choice(FLT_LITS))
    if k < 9:
        return C.S(rng.choice(STR_LITS))
    return C.B(rng.chance(1, 2))


def gen_field_value(rng):
    """None = field missing"""
    k = rng.below(16)
    if k < 3:
        return None
    if k < 7:
        return C.I(rng.choice(INT_LITS + [4, 6, -3, C.P53, C.P53 + 2]))
    if k < 11:
        return C.F(rng.choice(FLT_LITS + [-0.0, 2.9999999999999996, 31.0, float(C.P53) + 2.0, float("nan"), float("inf"), -3.0, 0.30000000000000004]))
    if k < 14:
        return C.S(rng.choice(STR_LITS + ["B", "z"]))
    if k < 15:
        return C.B(rng.chance(1, 2))
    return C.NULL


def gen_leaf(rng, nf):
    k = rng.below(20)
    fld = ("id", rng.below(nf))
    if k < 13:
        return ("cmp", rng.choice(C.OPS), fld, ("lit", gen_lit(rng)))
    if k < 14:
        return ("cmp", rng.choice(C.OPS), ("lit", gen_lit(rng)), fld)
    if k < 16:
        return ("cmp", rng.choice(C.OPS), fld, ("id", rng.below(nf)))
    if k < 17:
        return fld
    if k < 18:
        return ("lit", C.B(rng.chance(1, 2)))
    if k < 19:
        return ("cmp", rng.choice(C.OPS), fld, ("lit", C.NULL))
    lit = rng.choice([C.I(3), C.I(5), C.F(3.0), C.F(0.3)])
    return ("cmp", rng.choice(C.OPS), fld, ("neg", ("lit", lit)))


def gen_filter(rng, depth, nf):
    if depth == 0 or rng.chance(1, 4):
        return gen_leaf(rng, nf)
    k = rng.below(5)
    if k < 2:
        return ("log", "And", gen_filter(rng, depth - 1, nf), gen_filter(rng, depth - 1, nf))
    if k < 4:
        return ("log", "Or", gen_filter(rng, depth - 1, nf), gen_filter(rng, depth - 1, nf))
    return ("not", gen_filter(rng, depth - 1, nf))


def lits_of(e, acc):
    if e[0] == "lit":
        acc.append(e[1])
    elif e[0] in ("cmp", "log"):
        lits_of(e[2], acc)
        lits_of(e[3], acc)
    elif e[0] in ("not", "neg"):
        lits_of(e[1], acc)
    return acc


def gen_event(rng, nf, f):
    fields = []
    lits = [l for l in lits_of(f, []) if C.tag(l) in ("i", "f", "s", "b")]
    for k in range(nf):
        if lits and rng.chance(1, 3):
            # a value equal or close to a literal of the filter, possibly of the other numeric type
            l = rng.choice(lits)
            if C.tag(l) == "i" and rng.chance(1, 2):
                v = C.F(float(int(l["i"])))
            elif C.tag(l) == "f" and rng.chance(1, 2) and abs(C.fval(l)) < 2.0 ** 62:
                v = C.I(int(C.fval(l)))
            else:
                v = l
        else:
            v = gen_field_value(rng)
        if v is not None:
            fields.append((k, v))
    return fields


FIXED = [
    # (filter, events) -- the classes DESIGN §7 C09 lists, the C08 shapes, earlier minimised disagreements
    (("cmp", "Eq", ("id", 0), ("lit", C.I(3))), [[(0, C.F(3.0))], [(0, C.I(3))], [(0, C.F(3.0000000000000004))], []]),
    (("cmp", "NotEq", ("id", 0), ("lit", C.F(3.0))), [[(0, C.I(3))], [(0, C.F(3.0))], [(0, C.S("a"))], []]),
    (("cmp", "Eq", ("id", 0), ("lit", C.F(0.3))), [[(0, C.F(0.1 + 0.2))], [(0, C.F(0.3))], [(0, C.F(float("nan")))]]),
    (("cmp", "Eq", ("id", 0), ("lit", C.F(0.0))), [[(0, C.F(-0.0))], [(0, C.I(0))], [(0, C.F(5e-324))]]),
    (("cmp", "Lt", ("id", 0), ("lit", C.S("m"))), [[(0, C.S("a"))], [(0, C.S("z"))], [(0, C.I(1))], []]),
    (("cmp", "Ge", ("id", 0), ("lit", C.S("b"))), [[(0, C.S("a"))], [(0, C.S("b"))], [(0, C.S("ba"))]]),
    (("cmp", "Ge", ("id", 0), ("lit", C.I(30))), [[(0, C.F(31.5))], [(0, C.I(31))], [(0, C.F(29.5))], []]),
    (("cmp", "Gt", ("id", 0), ("lit", C.F(float(C.P53)))), [[(0, C.I(C.P53 + 1))], [(0, C.I(C.P53))]]),
    (("cmp", "Lt", ("id", 0), ("lit", C.F(1.0))), [[(0, C.F(float("nan")))], [(0, C.F(float("-inf")))]]),
    (("cmp", "Eq", ("id", 0), ("lit", C.B(True))), [[(0, C.B(True))], [(0, C.I(1))], []]),
    (("cmp", "Eq", ("id", 0), ("lit", C.NULL)), [[(0, C.NULL)], [], [(0, C.I(0))]]),
    (("cmp", "Eq", ("id", 0), ("id", 1)), [[(0, C.I(3)), (1, C.F(3.0))], [(0, C.NULL), (1, C.NULL)], [(0, C.I(3))]]),
    (("log", "And", ("cmp", "Gt", ("id", 0), ("lit", C.I(5))), ("cmp", "Gt", ("id", 1), ("lit", C.I(5)))), [[(0, C.I(10))], [(0, C.I(10)), (1, C.I(10))], [(0, C.I(1)), (1, C.S("a"))]]),
    (("id", 0), [[(0, C.B(True))], [(0, C.I(1))], []]),
]
# witnesses of the two known classes (re-confirmed on the implementation every run)
WITNESS_NOT = (("not", ("cmp", "Gt", ("id", 0), ("lit", C.I(5)))), [[]])
WITNESS_OR = (("log", "Or", ("cmp", "Gt", ("id", 0), ("lit", C.I(5))), ("cmp", "Gt", ("id", 1), ("lit", C.I(5)))), [[(0, C.I(10))]])


def api_req(f, evs):
    return {"op": "filter", "expr": C.e_json(f), "events": [C.ev_json(e) for e in evs]}


def impl_filter_str(ans):
    if "panic" in ans:
        return "PANIC " + ans["panic"]
    return "%s|%s" % (ans["pred"] if ans["pred"] is not None else "none", ";".join(C.ch(w) + C.ch(s) for w, s in ans["acc"]))


def model_strip(sm):
    """model string -> (comparable part, class flags per event)"""
    shape, rest = sm.split("|", 1)
    cells = rest.split(";") if rest else []
    return "%s|%s" % (shape, ";".join(c[:2] for c in cells)), [(c[2] == "t", c[3] == "t") for c in cells]


def engine_reqs(f, evs):
    txt = C.e_vpl(f)
    reqs = [{"op": "engine", "vpl": "stream W = B\n    .where(%s)\n    .emit(k: k)\n" % txt,
             "events": [C.ev_json(e, "B", extra=[("k", C.I(k))]) for k, e in enumerate(evs)]}]
    for k, e in enumerate(evs):
        reqs.append({"op": "engine", "vpl": "stream Q = A as a -> B where %s as b\n    .emit(k: b.k)\n" % txt,
                     "events": [{"type": "A", "fields": []}, C.ev_json(e, "B", extra=[("k", C.I(k))])]})
    return reqs


def engine_accepts(answers, n):
    """-> (where flags, step flags) or error string"""
    for a in answers:
        if "panic" in a or "error" in a:
            return a.get("panic") or a.get("error")
    ks = set(int(dict((k, v) for k, v in o["fields"])["k"]["i"]) for o in answers[0]["out"])
    w = [k in ks for k in range(n)]
    s = [len(a["out"]) > 0 for a in answers[1:]]
    return w, s


def subterms(f):
    """candidate replacements for a filter, smaller first"""
    k = f[0]
    out = []
    if k == "log":
        out += [f[2], f[3]]
        for a in subterms(f[2]):
            out.append(("log", f[1], a, f[3]))
        for b in subterms(f[3]):
            out.append(("log", f[1], f[2], b))
    elif k == "not":
        out.append(f[1])
        for a in subterms(f[1]):
            out.append(("not", a))
    return out


def fails_outside_classes(binpath, f, ev):
    a = harness.run_jsonl(binpath, [api_req(f, [ev])])[0]
    if "panic" in a:
        return False
    w, s = a["acc"][0]
    fl = a.get("flags", [[False, False]])[0]
    return w != s and not fl[0] and not fl[1]


def shrink_api(binpath, f, ev):
    """greedy: replace the filter by a sub-filter / drop event fields while the two paths still disagree outside the known classes"""
    if not fails_outside_classes(binpath, f, ev):
        return f, ev
    changed = True
    while changed:
        changed = False
        for cand in subterms(f):
            if fails_outside_classes(binpath, cand, ev):
                f, changed = cand, True
                break
        if not changed:
            for i in range(len(ev)):
                cand = ev[:i] + ev[i + 1:]
                if fails_outside_classes(binpath, f, cand):
                    ev, changed = cand, True
                    break
    return f, ev


def classes_of(flags):
    cl = []
    if flags is not None:
        if flags[0]:
            cl.append(CLASS_NOT)
        if flags[1]:
            cl.append(CLASS_OR)
    return cl


def ev_show(e):
    return "{%s}" % ", ".join("f%d: %s" % (k, C.show(v)) for k, v in e)


def check(run):
    run.rule = ("filters of depth <= 3 (and/or/not over comparisons field-vs-literal, literal-vs-field, field-vs-field, bare fields, literals; literals "
                "int/float/string/bool/null incl. negated) over 1-3 fields x events with missing/null/bool/int/float(NaN, inf, -0.0)/string values "
                "correlated with the filter's literals; each through (1) the two evaluator APIs and (2) for text-expressible filters a real "
                "`.where` stream vs a real `A -> B where f` sequence step; non-trivial = at least one event accepted and one rejected by .where, "
                "or the filter has a boolean connective; distinct = distinct (filter, events)")
    run.trusted += ["Coq 8.16.1 kernel + vm_compute", "Flocq 4 binary64 (BinarySingleNaN) as the meaning of Rust f64 operations",
                    "translator translate/eval_arms.py (arm tables + strictness shape of and/or/not/==/!= in evaluator.rs, sase.rs comparison helpers)",
                    "hand-written model coq/theories/Cmp/Model.v (eval, expr_to_sase_predicate, eval_predicate) tied by differential run "
                    "(accept bits of both evaluators and the shape of the translated predicate compared verbatim)",
                    "Rust harness harness/crates/cmp (reaches the private eval_predicate through the public NegationConstraint::is_violated_by), "
                    "Python driver checks/cmp_common.py + checks/C09.py",
                    "standard-library axioms under Flocq's real-number theorems (through C08 lemmas): " + ", ".join(C.FLOCQ_AXIOMS)]
    run.assumptions += ["filters contain no reference to earlier captured events, no arithmetic and no calls (outside the modelled fragment; such "
                        "sub-expressions are handed to the same VPL evaluator by expr_to_sase_predicate)",
                        "the pest grammar parses the text of a filter to the same AST under `.where(..)` and under `-> B where ..` (tested by the Engine half)"]
    import time
    t0 = time.time()
    binpath = C.build_all(run, "theories/Cmp/Props_C09.vo", "C09.v")
    t0 = C.phase(run, "translate+coq+audit+cargo", t0)
    if binpath is None:
        return
    rng = run.rng
    quick = run.tier == "quick"

    cases = [(f, [list(e) for e in evs]) for f, evs in FIXED] + [WITNESS_NOT, WITNESS_OR]
    p = os.path.join(C.VERIF, "corpus", "C09", "cases.json")
    if os.path.exists(p):
        for f, evs in json.load(open(p)):
            cases.append((tup(f), [[(k, v) for k, v in e] for e in evs]))
    n = 1100 if quick else 25000
    for i in range(n):
        nf = rng.range(1, 3)
        f = gen_filter(rng, rng.choice([0, 1, 1, 2, 2, 3]), nf)
        evs = [gen_event(rng, nf, f) for _ in range(6)]
        cases.append((f, evs))

    answers = harness.run_jsonl(binpath, [api_req(f, evs) for f, evs in cases])
    t0 = C.phase(run, "impl filters", t0)
    model = C.model_eval(run, "C09", ["filter_case %s [%s]" % (C.g_expr(f), "; ".join(C.g_event(e) for e in evs)) for f, evs in cases])

    t0 = C.phase(run, "model filters", t0)
    n_or = n_corr = n_known = 0
    flags_by_case = []
    for k, ((f, evs), ans, sm) in enumerate(zip(cases, answers, model)):
        si = impl_filter_str(ans)
        flags = None
        if sm is not None:
            smc, flags = model_strip(sm)
            if smc != si:
                n_corr += 1
                if n_corr <= 3:
                    run.tie_broken("correspondence Cmp/Model.v vs evaluator.rs/compiler.rs/sase.rs on filter %s" % C.e_show(f),
                                   "events %s\nimpl  %s\nmodel %s" % ([ev_show(e) for e in evs], si, smc))
        flags_by_case.append(flags)
        iflags = [tuple(x) for x in ans.get("flags", [])]
        if flags is not None and iflags and iflags != flags:
            n_corr += 1
            if n_corr <= 3:
                run.tie_broken("known-class membership computed by Cmp/Classes.v and by the real evaluator differ on filter %s" % C.e_show(f),
                               "events %s\nimpl  %s\nmodel %s" % ([ev_show(e) for e in evs], iflags, flags))
        acc = ans.get("acc", [])
        nontrivial = None
        if acc and ((any(w for w, _ in acc) and not all(w for w, _ in acc)) or C.e_size(f) > 3):
            nontrivial = json.dumps([C.e_json(f), [C.ev_json(e) for e in evs]])
        run.case(nontrivial, sample={"filter": C.e_show(f), "events": [ev_show(e) for e in evs], "impl": si} if k in (0, len(FIXED) + 5) else None)
        run.count("size=%d" % min(C.e_size(f), 12))
        run.count("pred=" + ("E" if ans.get("pred") == "E" else "structural"))
        if "panic" in ans:
            n_or += 1
            run.violation("filter %s: panic %s" % (C.e_show(f), ans["panic"]), {"kind": "api", "filter": f, "events": evs, "implementation": ans})
            continue
        for j, (w, s) in enumerate(acc):
            run.count("where=%s,step=%s" % (C.ch(w), C.ch(s)))
            if w != s:
                cl = classes_of(flags[j] if flags else None)
                what = "filter `%s` on event %s: .where %s it, the sequence step %s it" % (
                    C.e_show(f), ev_show(evs[j]), "accepts" if w else "rejects", "accepts" if s else "rejects")
                if cl and run.match_known(cl):
                    n_known += 1
                    run.count("known:" + "+".join(cl))
                    run.violation(what, {}, classes=cl)
                else:
                    n_or += 1
                    run.count("oracle_fail")
                    if n_or <= 6:
                        f2, e2 = shrink_api(binpath, f, evs[j])
                        a2 = harness.run_jsonl(binpath, [api_req(f2, [e2])])[0]
                        w2, s2 = a2["acc"][0]
                        what = "filter `%s` on event %s: .where %s it, the sequence step %s it" % (
                            C.e_show(f2), ev_show(e2), "accepts" if w2 else "rejects", "accepts" if s2 else "rejects")
                        run.violation(what, {"kind": "api", "filter": f2, "events": [e2], "implementation": {"where": w2, "step": s2, "pred": a2["pred"]},
                                             "found_as": {"filter": C.e_json(f), "event": C.ev_json(evs[j])},
                                             "contradicts": "C09_agree (coq/theories/Cmp/Props_C09.v)"})
    run.extra["api_disagreements_outside_known_classes"] = n_or
    run.extra["api_disagreements_in_known_classes"] = n_known
    run.extra["disagreements"] = n_corr

    # the two witnesses must still fail on the implementation (the findings are re-confirmed, not assumed)
    base = len(FIXED)
    for idx, cls in ((base, CLASS_NOT), (base + 1, CLASS_OR)):
        w, s = answers[idx]["acc"][0]
        run.extra["witness_%s_still_disagrees" % cls] = (w != s)

    # ---- Engine level: filter stream vs sequence step
    ecases = [(k, c) for k, c in enumerate(cases) if C.vpl_expressible(c[0])]
    ecases = ecases[:len(FIXED) + 2] + ecases[len(FIXED) + 2:][:(110 if quick else 2500)]
    reqs = []
    for _, (f, evs) in ecases:
        reqs += engine_reqs(f, evs)
    eans = harness.run_jsonl(binpath, reqs)
    t0 = C.phase(run, "engine programs", t0)
    pos = 0
    n_eng = n_eng_known = n_eng_corr = 0
    for k, (f, evs) in ecases:
        a = eans[pos:pos + 1 + len(evs)]
        pos += 1 + len(evs)
        run.case(("engine", json.dumps([C.e_json(f), [C.ev_json(e) for e in evs]])))
        run.count("engine")
        r = engine_accepts(a, len(evs))
        if isinstance(r, str):
            n_eng_corr += 1
            if n_eng_corr <= 3:
                run.tie_broken("engine run of filter `%s`" % C.e_vpl(f), r[:600])
            continue
        w, s = r
        api = answers[k].get("acc")
        # (filters with `not` are compared through the oracle only: until /repo e2319ae the parser dropped the keyword
        #  in both contexts alike, which does not concern this property)
        if api and not C.has_not(f) and [list(x) for x in zip(w, s)] != [list(x) for x in api]:
            n_eng_corr += 1
            if n_eng_corr <= 3:
                run.tie_broken("Engine programs and evaluator APIs disagree on filter `%s`" % C.e_vpl(f),
                               "events %s\nengine (where, step) %s\napi %s" % ([ev_show(e) for e in evs], list(zip(w, s)), api))
        for j in range(len(evs)):
            if w[j] != s[j]:
                fl = flags_by_case[k]
                cl = classes_of(fl[j] if fl else None)
                if C.has_not(f) and api and [w[j], s[j]] != list(api[j]):
                    cl = []   # the text was not parsed to the AST the classes were computed for
                what = "Engine: `stream W = B.where(%s)` %s event %s but `A as a -> B where %s as b` %s it" % (
                    C.e_vpl(f), "selects" if w[j] else "drops", ev_show(evs[j]), C.e_vpl(f), "matches" if s[j] else "does not match")
                if cl and run.match_known(cl):
                    n_eng_known += 1
                    run.violation(what, {}, classes=cl)
                else:
                    n_eng += 1
                    if n_eng <= 4:
                        run.violation(what, {"kind": "engine", "filter": f, "events": [evs[j]], "vpl": [r_["vpl"] for r_ in engine_reqs(f, [evs[j]])],
                                             "contradicts": "C09_agree (coq/theories/Cmp/Props_C09.v) through the Engine"})
    run.extra["engine_disagreements_outside_known_classes"] = n_eng
    run.extra["engine_disagreements_in_known_classes"] = n_eng_known


def tup(j):
    """JSON lists back to the tuple form of filters"""
    if isinstance(j, list):
        if j and j[0] == "lit":
            return ("lit", j[1])
        return tuple(tup(x) for x in j)
    return j


def replay(run, path):
    r = json.load(open(path))["replay"]
    ok, bindir, lg = harness.build("vp-cmp")
    binpath = os.path.join(bindir, "vp-cmp")
    f = tup(r["filter"])
    evs = [[(k, v) for k, v in e] for e in r["events"]]
    if r["kind"] == "api":
        ans = harness.run_jsonl(binpath, [api_req(f, evs)])[0]
        run.case(("replay", json.dumps(r["filter"])), {"filter": C.e_show(f), "impl": impl_filter_str(ans)})
        for j, (w, s) in enumerate(ans.get("acc", [])):
            if w != s:
                run.violation("filter `%s` on event %s: .where %s it, the sequence step %s it" % (
                    C.e_show(f), ev_show(evs[j]), "accepts" if w else "rejects", "accepts" if s else "rejects"),
                    {"kind": "api", "filter": f, "events": [evs[j]], "implementation": ans})
    else:
        a = harness.run_jsonl(binpath, engine_reqs(f, evs))
        res = engine_accepts(a, len(evs))
        run.case(("replay", json.dumps(r["filter"])), {"filter": C.e_show(f), "engine": str(res)})
        if isinstance(res, str):
            run.tie_broken("engine run", res)
        else:
            for j in range(len(evs)):
                if res[0][j] != res[1][j]:
                    run.violation("Engine: .where(%s) %s event %s, the sequence step %s it" % (
                        C.e_vpl(f), "selects" if res[0][j] else "drops", ev_show(evs[j]), "matches" if res[1][j] else "does not match"),
                        {"kind": "engine", "filter": f, "events": [evs[j]]})
