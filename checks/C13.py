"""C13 — sliding windows contain exactly the events in range at each emission."""
from checks import window_common as W

META = {
    "technique": "Coq proof (run of the sliding window state machines = closed-form emission schedule, by induction over the stream) + model/impl differential on the window API and the Engine",
    "level_text": "Theorems C13_* in coq/theories/Window/Props.v: on every in-order stream the time-sliding model emits exactly per time_schedule (first arrival or >= slide after the previous emitting arrival; contents = arrivals within size of the trigger, in order), on every stream the count-sliding model emits exactly per count_schedule (window full and >= slide arrivals since the previous emission; contents = last size arrivals), partitioned forms = the plain schedule of each key's sub-stream; model tied to window.rs / engine/types.rs by comparing every emission verbatim on the window API and through Engine programs",
    "level_note": "'Within the window size' read inclusively (t - size <= ts <= t). For slide > size the first count emission is at arrival number slide. Emissions triggered by advance_watermark and out-of-order streams are outside the property's quantifier: compared model vs code, not judged, no theorem. Engine path observes windows through count/sum/first/last of x = 2^id. Trusted: Coq kernel + vm_compute, hand-written model (differential tie), harness, Python schedule oracle",
    "design_ref": "DESIGN.md §7 C13, §12 Window",
}


def judge(c, ans):
    return W.oracle_c13(c, ans)


def cases_for(run):
    rng = run.rng
    cases = []
    cases.append(W.mk_case("win", "sliding", 3, 2, [["add", 0, 0, -1], ["add", 1, 1, -1], ["add", 2, 2, -1], ["add", 3, 3, -1], ["add", 4, 5, -1], ["add", 5, 5, -1], ["add", 6, 8, -1]], "inorder"))
    cases.append(W.mk_case("win", "slidingcount", 3, 2, [["add", i, i, -1] for i in range(9)], "inorder"))
    cases.append(W.mk_case("win", "slidingcount", 2, 4, [["add", i, i, -1] for i in range(10)], "inorder"))
    n = 600 if run.tier == "quick" else 20000
    for i in range(n):
        cases.append(W.gen_case(rng, W.C13_KINDS, 10 if i % 3 else 18, engine_share=(2, 5)))
    cases += W.exhaustive_small(("sliding", "slidingcount", "psliding"), apis=("win",))
    if run.tier == "thorough":
        cases += W.exhaustive_small(W.C13_KINDS, apis=("eng",))
    return cases


def check(run):
    run.rule = ("op sequences (add, plus watermark / peek for the correspondence) on SlidingWindow, SlidingCountWindow, PartitionedSlidingWindow directly and "
                "on all four sliding forms (incl. PartitionedSlidingCountWindowState) through Engine programs `.window(n, sliding: m)`, all (size, slide) in 0-5, "
                "in-order streams with ties (judged by the oracle) and out-of-order streams (correspondence only); plus every in-order stream of <= 4 events "
                "for all (size, slide) in 1..3; non-trivial = >= 3 arrivals and >= 2 emissions; distinct = distinct (api, kind, size, slide, op list)")
    run.trusted += ["Coq 8.16.1 kernel + vm_compute",
                    "hand-written model coq/theories/Window/Model.v tied by differential run (every emission compared verbatim, ids in order)",
                    "Rust harness harness/crates/window, Python driver checks/window_common.py (generators, closed-form emission-schedule oracle)",
                    "FxHashMap partition order not modelled (partition results compared sorted by key)",
                    "Engine path observes windows only through count/sum/first/last of x = 2^id"]
    run.assumptions += ["chrono DateTime/Duration arithmetic does not overflow on the explored timestamps (model uses unbounded Z)",
                        "'within the window size of the triggering event' is read inclusively: t - size <= ts <= t",
                        "count-sliding 'when': emission at an arrival iff the window is full and >= slide arrivals since the previous emission (or since the start)"]
    binpath = W.build_all(run, ["theories/Window/Props.vo"], "C13.v")
    if binpath is None:
        return
    W.report(run, binpath, cases_for(run), judge, "C13", "theorems C13_* in coq/theories/Window/Props.v")


def replay(run, path):
    W.replay(run, path, judge)
