"""Small helpers for the Expr translators (expr_arms.py, fold_rules.py): locating a function /
block in Rust source text and splitting a `match` body into its arms.  No Rust parser: anchored
text search plus bracket counting; everything unexpected raises Shape (=> translator exits
non-zero => the check reports a broken tie)."""
import hashlib
import re


class Shape(Exception):
    pass


def strip_comments(src):
    out = []
    i = 0
    n = len(src)
    while i < n:
        c = src[i]
        if c == '"':
            j = i + 1
            while j < n and src[j] != '"':
                j += 2 if src[j] == "\\" else 1
            out.append(src[i:j + 1])
            i = j + 1
        elif src.startswith("//", i):
            while i < n and src[i] != "\n":
                i += 1
        elif src.startswith("/*", i):
            j = src.find("*/", i + 2)
            i = n if j < 0 else j + 2
        else:
            out.append(c)
            i += 1
    return "".join(out)


OPEN = "([{"
CLOSE = ")]}"


def match_close(text, start):
    """text[start] is an opening bracket; index of its matching closing bracket"""
    if text[start] not in OPEN:
        raise Shape("expected an opening bracket at %r" % text[start:start + 40])
    depth = 0
    i = start
    n = len(text)
    while i < n:
        c = text[i]
        if c == '"':
            i += 1
            while i < n and text[i] != '"':
                i += 2 if text[i] == "\\" else 1
        elif c == "'" and i + 2 < n and (text[i + 2] == "'" or (text[i + 1] == "\\" and i + 3 < n and text[i + 3] == "'")):
            i += 3 if text[i + 2] == "'" else 4
            continue
        elif c in OPEN:
            depth += 1
        elif c in CLOSE:
            depth -= 1
            if depth == 0:
                return i
        i += 1
    raise Shape("unbalanced brackets after %r" % text[start:start + 40])


def block_after(text, anchor, start=0):
    """inner text of the `{...}` block that follows the first occurrence of `anchor` (a regex)
    at or after `start`; returns (inner, index after the closing brace)"""
    m = re.compile(anchor).search(text, start)
    if not m:
        raise Shape("anchor not found: %s" % anchor)
    i = text.find("{", m.end() - 1) if text[m.end() - 1] != "{" else m.end() - 1
    if i < 0:
        raise Shape("no block after %s" % anchor)
    j = match_close(text, i)
    return text[i + 1:j], j + 1


def fn_body(text, name):
    m = re.search(r"\bfn\s+%s\s*(<[^>]*>)?\s*\(" % re.escape(name), text)
    if not m:
        raise Shape("function %s not found" % name)
    p = match_close(text, m.end() - 1)
    i = text.find("{", p)
    j = match_close(text, i)
    return text[i + 1:j]


def norm(s):
    """whitespace-insensitive form used for comparisons and hashes"""
    s = re.sub(r"\s+", " ", s).strip()
    s = re.sub(r"\s*([(){}\[\],;:=<>!&|*+\-/%.])\s*", r"\1", s)
    s = re.sub(r",(?=[)\]}])", "", s)       # trailing commas
    return s


def unbrace(body):
    """`{ x }` -> `x` (repeatedly), and drop one trailing comma"""
    b = body.strip()
    while b.startswith("{") and match_close(b, 0) == len(b) - 1:
        b = b[1:-1].strip()
    return b


def split_arms(inner):
    """arms of a match body: list of (pattern_text_with_guard, body_text)"""
    arms = []
    i = 0
    n = len(inner)
    while True:
        while i < n and inner[i] in " \t\r\n,":
            i += 1
        if i >= n:
            break
        # pattern: up to the top-level `=>`
        depth = 0
        j = i
        while j < n:
            c = inner[j]
            if c == '"':
                j += 1
                while j < n and inner[j] != '"':
                    j += 2 if inner[j] == "\\" else 1
            elif c in OPEN:
                depth += 1
            elif c in CLOSE:
                depth -= 1
            elif depth == 0 and inner.startswith("=>", j):
                break
            j += 1
        if j >= n:
            raise Shape("arm without `=>` near %r" % inner[i:i + 60])
        pat = inner[i:j].strip()
        k = j + 2
        while k < n and inner[k] in " \t\r\n":
            k += 1
        if k < n and inner[k] == "{":
            e = match_close(inner, k)
            body = inner[k:e + 1]
            i = e + 1
        else:
            depth = 0
            e = k
            while e < n:
                c = inner[e]
                if c == '"':
                    e += 1
                    while e < n and inner[e] != '"':
                        e += 2 if inner[e] == "\\" else 1
                elif c in OPEN:
                    depth += 1
                elif c in CLOSE:
                    depth -= 1
                elif c == "," and depth == 0:
                    break
                e += 1
            body = inner[k:e]
            i = e + 1
        arms.append((pat, body.strip()))
    return arms


def split_guard(pat):
    """`P if G` -> (P, G) at top level; G is None when absent"""
    depth = 0
    for m in re.finditer(r"[(\[{)\]}]|\bif\b", pat):
        t = m.group(0)
        if t in OPEN:
            depth += 1
        elif t in CLOSE:
            depth -= 1
        elif depth == 0:
            return pat[:m.start()].strip(), pat[m.end():].strip()
    return pat.strip(), None


def split_alternatives(pat):
    """top-level `|` alternatives of a pattern"""
    alts = []
    depth = 0
    cur = []
    for c in pat:
        if c in OPEN:
            depth += 1
        elif c in CLOSE:
            depth -= 1
        if c == "|" and depth == 0:
            alts.append("".join(cur).strip())
            cur = []
        else:
            cur.append(c)
    alts.append("".join(cur).strip())
    return alts


def digest(s):
    return hashlib.sha256(norm(s).encode()).hexdigest()[:16]
