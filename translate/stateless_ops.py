#!/usr/bin/env python3
"""T-tie for C18: regenerate coq/theories/Simulate/Gen_Stateless.v from the Rust source.

Extracted (and nothing else):
  * crates/varpulis-runtime/src/engine/types.rs: the variant names of `enum RuntimeOp`, in order;
  * crates/varpulis-runtime/src/engine/mod.rs `Engine::is_stateless`: the shape
        self.streams.values().all(|s| { <field>.is_none() && ... && s.operations.iter().all(|op| { matches!(op, A | B | ...) }) })
    -> the list of `<field>.is_none()` guards and the list of RuntimeOp variants in the `matches!`;
  * `Engine::partition_key`: the order of the sources it consults
        sase.partition_by() -> RuntimeOp::PartitionedWindow -> PartitionedSlidingCountWindow -> PartitionedAggregate
        -> (only if the stream has a sase engine) equality key of a WhereExpr;
  * crates/varpulis-cli/src/main.rs run_simulation: both parallel branches choose round-robin chunks iff
    `stateless`, otherwise hash `event.get(&partition_key)` (falling back to the event type) modulo
    the worker count, with `partition_by.or(auto_partition_key).unwrap_or("symbol")`.
Anything else makes the translator exit non-zero (fail closed => the check reports a broken tie).
"""
import os
import re
import sys

sys.path.insert(0, os.path.dirname(os.path.dirname(os.path.abspath(__file__))))
from vplib.common import REPO, COQ  # noqa: E402

TYPES = "crates/varpulis-runtime/src/engine/types.rs"
ENGINE = "crates/varpulis-runtime/src/engine/mod.rs"
CLI = "crates/varpulis-cli/src/main.rs"


class Shape(Exception):
    pass


def strip_comments(src):
    src = re.sub(r"//[^\n]*", "", src)
    return re.sub(r"/\*.*?\*/", "", src, flags=re.S)


def block_from(src, i):
    """src[i] == '{' -> text inside the matching braces"""
    assert src[i] == "{"
    depth = 0
    j = i
    while j < len(src):
        c = src[j]
        if c == '"':
            j += 1
            while src[j] != '"':
                j += 2 if src[j] == "\\" else 1
        elif c == "{":
            depth += 1
        elif c == "}":
            depth -= 1
            if depth == 0:
                return src[i + 1:j]
        j += 1
    raise Shape("unbalanced braces")


def fn_body(src, name):
    m = re.search(r"\bfn\s+%s\s*\(" % re.escape(name), src)
    if not m:
        raise Shape("function %s not found" % name)
    return block_from(src, src.index("{", m.end()))


def extract(repo=REPO):
    types = strip_comments(open(os.path.join(repo, TYPES)).read())
    m = re.search(r"enum\s+RuntimeOp\s*\{", types)
    if not m:
        raise Shape("enum RuntimeOp not found")
    body = block_from(types, m.end() - 1)
    body = re.sub(r"#\[[^\]]*\]", "", body).replace("->", "=>")
    body = body.replace("=>", " to ")
    variants = []
    depth = 0
    cur = ""
    for c in body:
        if c in "(<[{":
            depth += 1
        elif c in ")>]}":
            depth -= 1
        if c == "," and depth == 0:
            variants.append(cur.strip())
            cur = ""
        else:
            cur += c
    if cur.strip():
        variants.append(cur.strip())
    names = []
    for v in variants:
        mm = re.match(r"([A-Z][A-Za-z0-9]*)\b", v)
        if not mm:
            raise Shape("unexpected RuntimeOp variant text: %r" % v[:60])
        names.append(mm.group(1))
    if len(set(names)) != len(names) or len(names) < 10:
        raise Shape("RuntimeOp variants: %s" % names)

    eng = strip_comments(open(os.path.join(repo, ENGINE)).read())
    st = fn_body(eng, "is_stateless")
    if not re.match(r"\s*self\s*\.\s*streams\s*\.\s*values\(\)\s*\.\s*all\(\s*\|s\|\s*\{", st):
        raise Shape("is_stateless does not start with self.streams.values().all(|s| {")
    guards = re.findall(r"s\s*\.\s*([a-z_]+)\s*\.\s*is_none\(\)", st)
    mm = re.search(r"s\s*\.\s*operations\s*\.\s*iter\(\)\s*\.\s*all\(\s*\|op\|\s*\{\s*matches!\(\s*op\s*,(.*?)\)\s*\}\s*\)", st, re.S)
    if not mm:
        raise Shape("is_stateless: `s.operations.iter().all(|op| { matches!(op, ...) })` not found")
    arms = [a.strip() for a in mm.group(1).split("|") if a.strip()]
    st_ops = []
    for a in arms:
        am = re.match(r"RuntimeOp::([A-Za-z0-9]+)(\(_\))?$", a)
        if not am:
            raise Shape("is_stateless: unexpected pattern %r" % a)
        if am.group(1) not in names:
            raise Shape("is_stateless mentions unknown variant %s" % am.group(1))
        st_ops.append(am.group(1))
    rest = st[:mm.start()] + st[mm.end():]
    if "||" in st or re.search(r"\bany\(", st):
        raise Shape("is_stateless has a disjunction / any(): shape changed")
    leftovers = re.sub(r"s\s*\.\s*[a-z_]+\s*\.\s*is_none\(\)|&&|self\s*\.\s*streams\s*\.\s*values\(\)\s*\.\s*all\(\s*\|s\|\s*\{|[\s{}()]", "", rest)
    if leftovers:
        raise Shape("is_stateless has unrecognised conditions: %r" % leftovers[:80])
    for g in ("sase_engine", "join_buffer"):
        if g not in guards:
            raise Shape("is_stateless no longer requires %s.is_none()" % g)

    pk = fn_body(eng, "partition_key")
    order = []
    for pat, tag in [(r"sase\s*\.\s*partition_by\(\)", "sase_partition_by"),
                     (r"RuntimeOp::PartitionedWindow\(", "PartitionedWindow"),
                     (r"RuntimeOp::PartitionedSlidingCountWindow\(", "PartitionedSlidingCountWindow"),
                     (r"RuntimeOp::PartitionedAggregate\(", "PartitionedAggregate"),
                     (r"extract_equality_join_key\(", "where_equality_key")]:
        mm = re.search(pat, pk)
        if not mm:
            raise Shape("partition_key: source %s not found" % tag)
        order.append((mm.start(), tag))
    tags = [t for _, t in sorted(order)]
    if tags != ["sase_partition_by", "PartitionedWindow", "PartitionedSlidingCountWindow", "PartitionedAggregate", "where_equality_key"]:
        raise Shape("partition_key consults its sources in another order: %s" % tags)
    if not re.search(r"for\s+stream\s+in\s+self\s*\.\s*streams\s*\.\s*values\(\)", pk):
        raise Shape("partition_key does not iterate self.streams.values()")

    cli = strip_comments(open(os.path.join(repo, CLI)).read())
    sim = fn_body(cli, "run_simulation")
    if len(re.findall(r"let\s+stateless\s*=\s*probe_engine\s*\.\s*is_stateless\(\)", sim)) != 2:
        raise Shape("run_simulation: expected two `let stateless = probe_engine.is_stateless()`")
    if len(re.findall(r"if\s+stateless\s*\{", sim)) < 2:
        raise Shape("run_simulation: expected `if stateless {` in both parallel branches")
    if len(re.findall(r"\.or\(auto_partition_key\)\s*\.\s*unwrap_or_else\(\|\|\s*\"symbol\"\.to_string\(\)\)", sim)) != 2:
        raise Shape("run_simulation: partition key selection changed")
    if len(re.findall(r"event\s*\.\s*get\(&partition_key\)", sim)) != 2 or len(re.findall(r"hasher\.finish\(\)\s*%\s*num_workers\s+as\s+u64", sim)) != 4:
        raise Shape("run_simulation: hash bucketing changed")
    if len(re.findall(r"div_ceil\(num_workers\)", sim)) != 2:
        raise Shape("run_simulation: round-robin chunking changed")
    return names, guards, st_ops, tags


def main():
    try:
        names, guards, st_ops, tags = extract()
    except (Shape, OSError, ValueError, AssertionError) as e:
        print("stateless_ops.py: shape assertion failed: %s" % e, file=sys.stderr)
        return 2
    out = os.path.join(COQ, "theories", "Simulate", "Gen_Stateless.v")
    body = ("(* GENERATED by translate/stateless_ops.py from %s, %s and %s on every run -- do not edit. *)\n"
            "From Coq Require Import List String.\nImport ListNotations.\nOpen Scope string_scope.\n\n"
            "(* the variants of `enum RuntimeOp`, in source order *)\n"
            "Inductive opk :=\n%s.\n\n"
            "Definition all_ops : list opk := [%s].\n\n"
            "(* Engine::is_stateless: every stream has none of these ... *)\n"
            "Definition stateless_guards : list string := [%s].\n"
            "(* ... and only operations of these kinds *)\n"
            "Definition stateless_ops : list opk := [%s].\n\n"
            "(* Engine::partition_key: the sources consulted, in order, for the first stream that has one *)\n"
            "Definition partition_key_sources : list string := [%s].\n"
            % (TYPES, ENGINE, CLI,
               "\n".join("| K%s" % n for n in names),
               "; ".join("K%s" % n for n in names),
               "; ".join('"%s"' % g for g in guards),
               "; ".join("K%s" % n for n in st_ops),
               "; ".join('"%s"' % t for t in tags)))
    os.makedirs(os.path.dirname(out), exist_ok=True)
    if not os.path.exists(out) or open(out).read() != body:
        open(out, "w").write(body)
    print("RuntimeOp variants=%d stateless ops=%d guards=%s" % (len(names), len(st_ops), ",".join(guards)))
    return 0


if __name__ == "__main__":
    sys.exit(main())
