#!/usr/bin/env python3
"""T-tie for C28: regenerate coq/theories/Tenant/Gen_Handlers.v from crates/varpulis-cli/src/api.rs.

For each of the twelve tenant handlers reachable from `api_routes` (handler names are taken from the route
table extracted by translate/routes.py) the lookup chain is extracted:
  * the lock taken on the shared manager (`manager.read().await` / `manager.write().await`, exactly one use of `manager`);
  * the prologue `mgr.get_tenant_by_api_key(&api_key)` -> 401 (same regular expression as routes.py);
  * every later call on `mgr`, which must be one of
        get_tenant(&tenant_id)  get_tenant_mut(&tenant_id)  deploy_pipeline_on_tenant(&tenant_id, ..)  persist_if_needed(&tenant_id)
    i.e. keyed by the tenant id the key resolved to -- anything else (list_tenants, another id, the maps) is a shape error;
  * every use of the resolved `tenant`: method calls that take a pipeline id must take `&pipeline_id` (the path
    parameter) as their first argument; field reads are listed.
Anything else makes the translator exit non-zero (fail closed).
"""
import os
import re
import sys

sys.path.insert(0, os.path.dirname(os.path.dirname(os.path.abspath(__file__))))
from vplib.common import REPO, COQ  # noqa: E402
from translate import routes as R  # noqa: E402

MGR_ALLOWED = {
    "get_tenant": r"^&tenant_id$",
    "get_tenant_mut": r"^&tenant_id$",
    "deploy_pipeline_on_tenant": r"^&tenant_id,body\.name\.clone\(\),body\.source$",
    "persist_if_needed": r"^&tenant_id$",
}
PIPELINE_KEYED = {"pipelines.get", "pipelines.contains_key", "remove_pipeline", "process_event", "checkpoint_pipeline",
                  "restore_pipeline", "reload_pipeline", "subscribe_pipeline_logs"}
TENANT_CALLS_OTHER = {"pipelines.values", "id.to_string"}
FORBIDDEN = ["list_tenants", "api_key_index", ".tenants", "TenantId::new", "remove_tenant", "create_tenant", "tenant_count"]


def calls_on(body, var):
    """[(dotted name, normalised args or None for a field read)] in textual order"""
    out = []
    for m in re.finditer(r"(?<![A-Za-z0-9_])%s\s*\.\s*([a-z_]+(?:\s*\.\s*[a-z_]+)*)" % re.escape(var), body):
        name = re.sub(r"\s+", "", m.group(1))
        j = m.end()
        while j < len(body) and body[j].isspace():
            j += 1
        if j < len(body) and body[j] == "(":
            k = R.match_close(body, j, "(", ")")
            out.append((name, R.norm(body[j + 1:k])))
        else:
            out.append((name, None))
    return out


def extract(repo=REPO):
    tables, prologues, _ = R.extract(repo)
    src = R.strip_comments(open(os.path.join(repo, R.CLI)).read())
    handlers = [h for h, p in prologues if p.startswith("HTenantKey")]
    if len(handlers) != 12:
        raise R.Shape("expected 12 tenant handlers, found %d: %s" % (len(handlers), handlers))
    rows = []
    for h in handlers:
        sig, body = R.fn_text(src, h)
        nb = R.norm(body)
        m = R.TENANT_PROLOGUE.match(nb)
        if not m:
            raise R.Shape("%s: prologue" % h)
        lock = "write" if "manager.write().await" in nb[:m.end()] else "read"
        if len(re.findall(r"(?<![A-Za-z0-9_])manager(?![A-Za-z0-9_])", body)) != 1:
            raise R.Shape("%s: the shared manager is used more than once" % h)
        for bad in FORBIDDEN:
            if bad in body:
                raise R.Shape("%s: uses %s" % (h, bad))
        mgr = calls_on(body, "mgr")
        if not mgr or mgr[0] != ("get_tenant_by_api_key", "&api_key"):
            raise R.Shape("%s: first use of mgr is %s" % (h, mgr[:1]))
        chain = []
        for name, args in mgr[1:]:
            if name not in MGR_ALLOWED or args is None or not re.match(MGR_ALLOWED[name], args):
                raise R.Shape("%s: mgr.%s(%s) is not a lookup by the resolved tenant id" % (h, name, args))
            chain.append("%s(%s)" % (name, "&tenant_id" if name != "deploy_pipeline_on_tenant" else "&tenant_id,.."))
        uses = []
        for name, args in calls_on(body, "tenant"):
            if args is None:
                uses.append(name)
            elif name in PIPELINE_KEYED:
                if not (args == "&pipeline_id" or args.startswith("&pipeline_id,")):
                    raise R.Shape("%s: tenant.%s(%s) is not keyed by the path's pipeline id" % (h, name, args))
                uses.append("%s(&pipeline_id%s)" % (name, ",.." if "," in args else ""))
            elif name in TENANT_CALLS_OTHER:
                uses.append("%s()" % name)
            else:
                raise R.Shape("%s: unknown call tenant.%s(%s)" % (h, name, args))
        has_pid = "pipeline_id:String" in R.norm(sig)
        keyed = [u for u in uses if "(&pipeline_id" in u]
        if has_pid != bool(keyed):
            raise R.Shape("%s: pipeline_id parameter %s but pipeline-keyed calls %s" % (h, has_pid, keyed))
        # de-duplicate consecutive repeats (e.g. tenant.usage.* listed field by field)
        rows.append((h, lock, chain, uses))
    return rows


def gstr(s):
    return '"%s"' % s.replace('"', '""')


def main():
    try:
        rows = extract()
    except (R.Shape, OSError, ValueError, KeyError, IndexError) as e:
        print("tenant_handlers.py: shape assertion failed: %s" % e, file=sys.stderr)
        return 2
    out = ["(* GENERATED by translate/tenant_handlers.py from %s on every run -- do not edit." % R.CLI,
           "   One row per tenant handler: lock on the shared manager, manager calls after the key lookup",
           "   (all keyed by the resolved tenant id), uses of the resolved tenant (pipeline-keyed calls take the path's id). *)",
           "From Coq Require Import String List.", "Import ListNotations.", "Open Scope string_scope.",
           "From VP Require Import Tenant.HandlerSyntax.", "",
           "Definition tenant_handlers : list handler_chain :="]
    body = []
    for h, lock, chain, uses in rows:
        body.append("  mkChain %s %s\n    [%s]\n    [%s]" % (gstr(h), gstr(lock), "; ".join(gstr(c) for c in chain), "; ".join(gstr(u) for u in uses)))
    out.append("[\n" + ";\n".join(body) + "\n].\n")
    text = "\n".join(out)
    path = os.path.join(COQ, "theories", "Tenant", "Gen_Handlers.v")
    if not os.path.exists(path) or open(path).read() != text:
        open(path, "w").write(text)
    print("tenant handlers: %d" % len(rows))
    return 0


if __name__ == "__main__":
    sys.exit(main())
