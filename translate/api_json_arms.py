#!/usr/bin/env python3
"""T-tie for C44: regenerate coq/theories/Codec/Gen_ApiArms.v from the Rust source.

Extracts the match arms of
  crates/varpulis-cli/src/api.rs        fn json_to_runtime_value   (JSON -> runtime value, inject / inject-batch)
  crates/varpulis-cli/src/api.rs        fn json_from_value         (runtime value -> JSON, log stream)
  crates/varpulis-cli/src/websocket.rs  pub fn value_to_json       (runtime value -> JSON, inject responses)
normalises them (path prefixes, the function's own name, bound variable names, arm order) and writes them
as Gallina tables. Codec/PropsArms.v proves the regenerated tables equal to the tables the hand-written
model (json_to_value / value_to_json in Codec/Model.v) was written from. json_from_value is not reached by
the differential run, this tie is what covers it.
Fails closed (exit 1) when the source does not have the expected shape.
"""
import os
import re
import sys

REPO = os.environ.get("VERIF_REPO", "/repo")
VERIF = os.path.dirname(os.path.dirname(os.path.abspath(__file__)))
OUT = os.path.join(VERIF, "coq", "theories", "Codec", "Gen_ApiArms.v")


def die(msg):
    sys.stderr.write("api_json_arms.py: shape assertion failed: %s\n" % msg)
    sys.exit(1)


def strip_comments(s):
    s = re.sub(r"//[^\n]*", "", s)
    return re.sub(r"/\*.*?\*/", "", s, flags=re.S)


def block_after(src, start):
    i = src.index("{", start)
    depth = 0
    for j in range(i, len(src)):
        if src[j] == "{":
            depth += 1
        elif src[j] == "}":
            depth -= 1
            if depth == 0:
                return src[i + 1:j]
    die("unbalanced braces")


def fn_body(path, sig_re):
    src = strip_comments(open(path).read())
    m = re.search(sig_re, src)
    if not m:
        die("function %s not found in %s" % (sig_re, path))
    return block_after(src, m.end() - 1)


def split_arms(body):
    """body of `match v { ... }` -> list of (pattern, rhs)"""
    m = re.search(r"\bmatch\s+\w+\s*\{", body)
    if not m:
        die("no match expression")
    inner = block_after(body, m.end() - 1)
    rest = body[body.index(inner) + len(inner) + 1:].strip()
    if rest:
        die("code after the match expression: %r" % rest[:60])
    arms, depth, cur = [], 0, ""
    i = 0
    while i < len(inner):
        c = inner[i]
        if c in "({[":
            depth += 1
        elif c in ")}]":
            depth -= 1
            if depth == 0 and c == "}" and "=>" in cur:
                # a block-bodied arm ends at its closing brace
                cur += c
                arms.append(cur)
                cur = ""
                i += 1
                # optional comma
                while i < len(inner) and inner[i] in " \n\t,":
                    i += 1
                continue
        if c == "," and depth == 0:
            arms.append(cur)
            cur = ""
        else:
            cur += c
        i += 1
    if cur.strip():
        arms.append(cur)
    out = []
    for a in arms:
        if not a.strip():
            continue
        if "=>" not in a:
            die("arm without =>: %r" % a[:60])
        pat, rhs = a.split("=>", 1)
        out.append((pat.strip(), rhs.strip()))
    return out


def norm(text, self_name, var):
    t = text
    if var:
        # the bound variable, not a method or associated function of the same name (.map(..), Value::map(..))
        t = re.sub(r"(?<![\w.:])%s(?!\w)" % re.escape(var), "x", t)
    t = re.sub(r"\s+", "", t)
    t = t.replace("varpulis_core::", "").replace("serde_json::", "").replace("std::sync::", "")
    t = t.replace(self_name, "SELF")
    if t.startswith("{") and t.endswith("}") and ";" not in t and not t.startswith("{if"):
        t = t[1:-1]
    return t


def table(path, sig_re, self_name):
    arms = split_arms(fn_body(path, sig_re))
    rows = []
    for pat, rhs in arms:
        m = re.search(r"\((\w+)\)\s*$", pat)
        var = m.group(1) if m else None
        rows.append((norm(pat, self_name, var), norm(rhs, self_name, var)))
    rows.sort()
    return rows


def g_str(s):
    if any(ord(c) < 32 or ord(c) > 126 for c in s):
        die("non-ASCII text in an arm: %r" % s)
    return '"%s"' % s.replace('"', '""')


def main():
    cli = os.path.join(REPO, "crates", "varpulis-cli", "src")
    t_in = table(os.path.join(cli, "api.rs"), r"fn\s+json_to_runtime_value\s*\([^)]*\)\s*->\s*[\w:]+\s*\{", "json_to_runtime_value")
    t_log = table(os.path.join(cli, "api.rs"), r"fn\s+json_from_value\s*\([^)]*\)\s*->\s*[\w:]+\s*\{", "json_from_value")
    t_out = table(os.path.join(cli, "websocket.rs"), r"pub\s+fn\s+value_to_json\s*\([^)]*\)\s*->\s*[\w:]+\s*\{", "value_to_json")
    if len(t_in) != 6:
        die("json_to_runtime_value: %d arms, expected 6 (Null, Bool, Number, String, Array, Object)" % len(t_in))
    for name, t in (("json_from_value", t_log), ("value_to_json", t_out)):
        if len(t) != 9:
            die("%s: %d arms, expected one per Value variant (9)" % (name, len(t)))
    with open(OUT, "w") as f:
        f.write("(* GENERATED by translate/api_json_arms.py from crates/varpulis-cli/src/{api,websocket}.rs — do not edit. *)\n")
        f.write("From Coq Require Import String List.\nImport ListNotations.\nOpen Scope string_scope.\n\n")
        for name, t in (("arms_json_to_runtime_value", t_in), ("arms_json_from_value", t_log), ("arms_value_to_json", t_out)):
            f.write("Definition %s : list (string * string) :=\n  [ %s ].\n\n" % (name, ";\n    ".join("(%s, %s)" % (g_str(p), g_str(r)) for p, r in t)))
    return 0


if __name__ == "__main__":
    sys.exit(main())
