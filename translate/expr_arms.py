#!/usr/bin/env python3
"""T-tie for C11 (and the evaluator half of C10): regenerate coq/theories/Expr/Gen_EvalTables.v from
crates/varpulis-runtime/src/engine/evaluator.rs.

Extracted into tables the model is driven by:
  * eval_expr_with_functions, `Expr::Binary` block: for BinOp::{Add,Sub,Mul,Div,Mod,Pow} the list of
    `(Value::X(a), Value::Y(b)) [if guard] => <how>` arms, each <how> one of a closed list of shapes
    (raw / checked / wrapping i64 operation, float operation, int cast to float on one side, string
    concatenation, the three `powi`/`powf` forms);
  * `Expr::Unary` block: the `UnaryOp::Neg` arms (raw / checked / wrapping negation, float negation);
  * whether `Expr::Timestamp` has an arm, and what the final `_ =>` arm does (`None`, or the
    self-recursion through eval_filter_expr);
  * eval_builtin_function: the `"name" [if args.len() ..] =>` arm list (names and arity guards) and
    how `abs` treats an Int (raw `n.abs()` / checked / wrapping).
  * BinOp::{Eq,NotEq}: plain `Value` equality (`left_val == right_val`) or the helper `values_eq`
    (an Int and a Float are equal when they denote the same number);
  * BinOp::{Lt,Le,Gt,Ge}: the `(Value::X(a), Value::Y(b)) => Some(Value::Bool(<how>))` arms (direct
    comparison, int cast to f64 on one side, or the exact helper cmp_int_float) -- the same arms
    translate/eval_arms.py extracts for C08; repeated here so that the Expr model does not depend
    on another area's generated file;
Compared by digest with the committed shape file translate/expr_shape.json (fail closed):
  * every other arm of eval_expr_with_functions (Ident, literals, Array, Map, Index, Slice, Range,
    Coalesce, Member, Call, If), the remaining operators of the Binary block (In NotIn And Or Xor),
    UnaryOp::Not, cmp_int_float and values_eq (when used), and every built-in's body except `abs`: these are modelled by hand in Expr/Model.v, so any edit
    to them must be followed by a model update (`expr_arms.py --update-shape`).
Anything unexpected => exit status 1 => the check reports a broken tie.
"""
import json
import os
import re
import sys

sys.path.insert(0, os.path.dirname(os.path.dirname(os.path.abspath(__file__))))
from vplib.common import REPO, COQ  # noqa: E402
from translate.expr_rs import (Shape, strip_comments, block_after, fn_body, norm, unbrace, split_arms,  # noqa: E402
                               split_guard, split_alternatives, digest)

EVAL = "crates/varpulis-runtime/src/engine/evaluator.rs"
SHAPE = os.path.join(os.path.dirname(os.path.abspath(__file__)), "expr_shape.json")
OUT = os.path.join(COQ, "theories", "Expr", "Gen_EvalTables.v")

ARITH = {"Add": ("IAdd", "FAdd", "+"), "Sub": ("ISub", "FSub", "-"), "Mul": ("IMul", "FMul", "*"),
         "Div": ("IDiv", "FDiv", "/"), "Mod": ("IRem", "FRem", "%"), "Pow": (None, "FPowf", None)}
CHECKED = {"IAdd": "add", "ISub": "sub", "IMul": "mul", "IDiv": "div", "IRem": "rem"}
TY = {"Int": "AInt", "Float": "AFloat", "Str": "AStr"}
ORDERING = ("Lt", "Le", "Gt", "Ge")


def parse_how(opname, lt, rt, body):
    """body: normalised arm body; returns Coq term of type ahow"""
    iop, fop, sym = ARITH[opname]
    b = norm(unbrace(body))
    if lt == "AInt" and rt == "AInt":
        if sym:
            if b == "Some(Value::Int(a%sb))" % sym:
                return "HInt Raw %s" % iop
            if b == "a.checked_%s(*b).map(Value::Int)" % CHECKED[iop]:
                return "HInt Checked %s" % iop
            if b == "Some(Value::Int(a.wrapping_%s(*b)))" % CHECKED[iop]:
                return "HInt Wrapping %s" % iop
        elif b == "Some(Value::Int((*a as f64).powi(*b as i32)as i64))":
            return "HPowII"
    if lt == "AFloat" and rt == "AFloat":
        if sym and b == "Some(Value::Float(a%sb))" % sym:
            return "HFloat %s" % fop
        if opname == "Pow" and b == "Some(Value::Float(a.powf(*b)))":
            return "HFloat FPowf"
    if lt == "AInt" and rt == "AFloat":
        if sym and b == "Some(Value::Float(*a as f64%sb))" % sym:
            return "HCastL %s" % fop
        if opname == "Pow" and b == "Some(Value::Float((*a as f64).powf(*b)))":
            return "HCastL FPowf"
    if lt == "AFloat" and rt == "AInt":
        if sym and b == "Some(Value::Float(a%s*b as f64))" % sym:
            return "HCastR %s" % fop
        if opname == "Pow" and b == "Some(Value::Float(a.powi(*b as i32)))":
            return "HPowFI"
    if lt == "AStr" and rt == "AStr" and opname == "Add":
        want = ("match(left_val,right_val){(Value::Str(a),Value::Str(b))=>{let mut result=a.into_string();"
                "result.push_str(&b);Some(Value::Str(result.into()))}_=>unreachable!()}")
        if b == want:
            return "HConcat"
    raise Shape("BinOp::%s (%s, %s): unrecognised arm body: %s" % (opname, lt, rt, b))


def parse_arith(opname, body):
    inner, _ = block_after(body, r"match\s*\(\s*&left_val\s*,\s*&right_val\s*\)\s*\{")
    if norm(body) != norm("match (&left_val, &right_val) {" + inner + "}"):
        raise Shape("BinOp::%s: body is not a single match on (&left_val, &right_val)" % opname)
    arms = split_arms(inner)
    out = []
    if norm(arms[-1][0]) != "_" or norm(arms[-1][1]) != "None":
        raise Shape("BinOp::%s: last arm is not `_ => None`" % opname)
    for pat, b in arms[:-1]:
        p, g = split_guard(pat)
        m = re.fullmatch(r"\(Value::(Int|Float|Str)\((a|_)\),Value::(Int|Float|Str)\((b|_)\)\)", norm(p))
        if not m:
            raise Shape("BinOp::%s: unrecognised pattern %s" % (opname, p))
        lt, rt = TY[m.group(1)], TY[m.group(3)]
        if g is None:
            guard = "GNone"
        elif norm(g) == "*b!=0" and rt == "AInt":
            guard = "GIntNZ"
        elif norm(g) == "*b!=0.0" and rt == "AFloat":
            guard = "GFloatNZ"
        else:
            raise Shape("BinOp::%s: unrecognised guard %s" % (opname, g))
        out.append("mkAarm %s %s %s %s (%s)" % (opname, lt, rt, guard, parse_how(opname, lt, rt, b)))
    return out


REL = {"<": "RLt", "<=": "RLe", ">": "RGt", ">=": "RGe"}
ISREL = {"is_lt": "RLt", "is_le": "RLe", "is_gt": "RGt", "is_ge": "RGe"}


def parse_ordering(opname, body, used):
    """arms of BinOp::{Lt,Le,Gt,Ge}: `(Value::X(a), Value::Y(b)) => Some(Value::Bool(<how>))`"""
    inner, _ = block_after(body, r"match\s*\(\s*&left_val\s*,\s*&right_val\s*\)\s*\{")
    if norm(body) != norm("match (&left_val, &right_val) {" + inner + "}"):
        raise Shape("BinOp::%s: body is not a single match on (&left_val, &right_val)" % opname)
    arms = split_arms(inner)
    if norm(arms[-1][0]) != "_" or norm(arms[-1][1]) != "None":
        raise Shape("BinOp::%s: last arm is not `_ => None`" % opname)
    out = []
    for pat, b in arms[:-1]:
        p, g = split_guard(pat)
        m = re.fullmatch(r"\(Value::(Int|Float|Str)\(a\),Value::(Int|Float|Str)\(b\)\)", norm(p))
        if not m or g is not None:
            raise Shape("BinOp::%s: unrecognised pattern %s" % (opname, pat))
        lt, rt = TY[m.group(1)], TY[m.group(2)]
        nb = norm(unbrace(b))
        mm = re.fullmatch(r"Some\(Value::Bool\((.*)\)\)", nb)
        if not mm:
            raise Shape("BinOp::%s: arm body %s" % (opname, nb))
        h = mm.group(1)
        how = None
        d = re.fullmatch(r"a(<=|>=|<|>)b", h)
        if d and lt == rt:
            how = "ODirect %s" % REL[d.group(1)]
        d = re.fullmatch(r"\(\*a as f64\)(<=|>=|<|>)\*b", h)
        if d and (lt, rt) == ("AInt", "AFloat"):
            how = "OCastL %s" % REL[d.group(1)]
        d = re.fullmatch(r"\*a(<=|>=|<|>)\(?\*b as f64\)?", h)
        if d and (lt, rt) == ("AFloat", "AInt"):
            how = "OCastR %s" % REL[d.group(1)]
        d = re.fullmatch(r"cmp_int_float\(\*a,\*b\)\.is_some_and\(Ordering::(is_\w\w)\)", h)
        if d and (lt, rt) == ("AInt", "AFloat") and d.group(1) in ISREL:
            how = "OExactL %s" % ISREL[d.group(1)]
            used.append("cmp_int_float")
        d = re.fullmatch(r"cmp_int_float\(\*b,\*a\)\.is_some_and\(Ordering::(is_\w\w)\)", h)
        if d and (lt, rt) == ("AFloat", "AInt") and d.group(1) in ISREL:
            how = "OExactR %s" % ISREL[d.group(1)]
            used.append("cmp_int_float")
        if how is None:
            raise Shape("BinOp::%s (%s, %s): unrecognised comparison %s" % (opname, lt, rt, h))
        out.append("mkOarm %s %s %s (%s)" % ({"Lt": "Lt_", "Gt": "Gt_"}.get(opname, opname), lt, rt, how))
    return out


def parse_int_unary(b, what):
    b = norm(unbrace(b))
    forms = {"neg": {"Some(Value::Int(-n))": "Raw", "n.checked_neg().map(Value::Int)": "Checked",
                     "Some(Value::Int(n.wrapping_neg()))": "Wrapping"},
             "abs": {"Some(Value::Int(n.abs()))": "Raw", "n.checked_abs().map(Value::Int)": "Checked",
                     "Some(Value::Int(n.wrapping_abs()))": "Wrapping"}}[what]
    if b not in forms:
        raise Shape("%s on Int: unrecognised body %s" % (what, b))
    return forms[b]


def main():
    update = "--update-shape" in sys.argv
    src = strip_comments(open(os.path.join(REPO, EVAL)).read())
    shape = {}

    # ---- eval_expr_with_functions ------------------------------------------------------------
    body = fn_body(src, "eval_expr_with_functions")
    inner, _ = block_after(body, r"match\s+expr\s*\{")
    arms = split_arms(inner)
    names = []
    arith, neg_arms, ord_arms, used, eq_numeric = [], [], [], [], []
    ts_handled = False
    fallthrough = None
    for pat, b in arms:
        p = norm(pat)
        if p == "_":
            nb = norm(unbrace(b))
            if nb == "None":
                fallthrough = "FtNoValue"
            elif nb == "eval_filter_expr(expr,event,ctx)":
                fallthrough = "FtSelfRecursion"
            else:
                raise Shape("final arm of eval_expr_with_functions: %s" % nb)
            names.append("_")
            continue
        m = re.match(r"Expr::(\w+)", p)
        if not m:
            raise Shape("arm pattern %s" % p)
        name = m.group(1)
        if name != "Timestamp":     # its presence is an extracted fact (timestamp_literal_handled)
            names.append(name)
        if name == "Timestamp":
            if norm(pat) + "=>" + norm(b) != "Expr::Timestamp(ns)=>Some(Value::Timestamp(*ns))":
                raise Shape("Expr::Timestamp arm: %s => %s" % (pat, b))
            ts_handled = True
        elif name == "Binary":
            bb = unbrace(b)
            pre = norm("let left_val = eval_expr_with_functions(left, event, ctx, functions, bindings)?;"
                       "let right_val = eval_expr_with_functions(right, event, ctx, functions, bindings)?;")
            if not norm(bb).startswith(pre + "match op{"):
                raise Shape("Expr::Binary: operands are not evaluated strictly before the operator match")
            opinner, _ = block_after(bb, r"match\s+op\s*\{")
            seen = []
            for opat, ob in split_arms(opinner):
                if norm(opat) == "_":
                    if norm(ob) != "None":
                        raise Shape("Expr::Binary: last operator arm is %s" % ob)
                    seen.append("_")
                    continue
                mm = re.fullmatch(r"BinOp::(\w+)", norm(opat))
                if not mm:
                    raise Shape("Expr::Binary operator pattern %s" % opat)
                o = mm.group(1)
                seen.append(o)
                if o in ARITH:
                    arith += parse_arith(o, ob)
                elif o in ORDERING:
                    ord_arms += parse_ordering(o, ob, used)
                elif o in ("Eq", "NotEq"):
                    forms = {"Eq": {"Some(Value::Bool(left_val==right_val))": "false",
                                    "Some(Value::Bool(values_eq(&left_val,&right_val)))": "true"},
                             "NotEq": {"Some(Value::Bool(left_val!=right_val))": "false",
                                       "Some(Value::Bool(!values_eq(&left_val,&right_val)))": "true"}}[o]
                    if norm(ob) not in forms:
                        raise Shape("BinOp::%s: unrecognised body %s" % (o, norm(ob)))
                    eq_numeric.append(forms[norm(ob)])
                else:
                    shape["binop:" + o] = digest(ob)
            shape["binop-order"] = ",".join(seen)
        elif name == "Unary":
            bb = unbrace(b)
            pre = norm("let val = eval_expr_with_functions(inner, event, ctx, functions, bindings)?;")
            if norm(pat) != "Expr::Unary{op,expr:inner}" or not norm(bb).startswith(pre + "match op{"):
                raise Shape("Expr::Unary: unexpected shape")
            uinner, _ = block_after(bb, r"match\s+op\s*\{")
            useen = []
            for upat, ub in split_arms(uinner):
                u = norm(upat)
                useen.append(u)
                if u == "varpulis_core::ast::UnaryOp::Neg":
                    ninner, _ = block_after(ub, r"match\s+val\s*\{")
                    for npat, nb in split_arms(ninner):
                        q = norm(npat)
                        if q == "Value::Int(n)":
                            neg_arms.append("(AInt, NInt %s)" % parse_int_unary(nb, "neg"))
                        elif q == "Value::Float(f)" and norm(nb) == "Some(Value::Float(-f))":
                            neg_arms.append("(AFloat, NFloat)")
                        elif q == "_" and norm(nb) == "None":
                            pass
                        else:
                            raise Shape("UnaryOp::Neg arm %s => %s" % (npat, nb))
                elif u == "varpulis_core::ast::UnaryOp::Not":
                    shape["unop:Not"] = digest(ub)
                elif u == "_":
                    if norm(ub) != "None":
                        raise Shape("Expr::Unary: last arm %s" % ub)
                else:
                    raise Shape("Expr::Unary: operator arm %s" % upat)
            shape["unop-order"] = ",".join(useen)
        else:
            shape["expr:" + name] = digest(pat + "=>" + b)
    shape["expr-order"] = ",".join(names)
    if fallthrough is None:
        raise Shape("eval_expr_with_functions has no final `_ =>` arm")

    if len(eq_numeric) != 2 or eq_numeric[0] != eq_numeric[1]:
        raise Shape("BinOp::Eq and BinOp::NotEq are not each other's negation: %s" % eq_numeric)
    if eq_numeric[0] == "true":
        shape["fn:values_eq"] = digest(fn_body(src, "values_eq"))
        used.append("cmp_int_float")
    if used:
        shape["fn:cmp_int_float"] = digest(fn_body(src, "cmp_int_float"))

    # ---- eval_builtin_function ---------------------------------------------------------------
    bbody = fn_body(src, "eval_builtin_function")
    binner, _ = block_after(bbody, r"match\s+func_name\s*\{")
    builtins = []
    abs_mode = None
    for pat, b in split_arms(binner):
        p, g = split_guard(pat)
        if norm(p) == "_":
            if norm(b) != "None":
                raise Shape("eval_builtin_function: last arm %s" % b)
            continue
        if g is None:
            ar = "ArAny"
        else:
            gm = re.fullmatch(r"args\.len\(\)(==|>=)(\d+)", norm(g))
            if gm:
                ar = "%s %s" % ("ArEq" if gm.group(1) == "==" else "ArGe", gm.group(2))
            elif norm(g) == "!args.is_empty()":
                ar = "ArNonEmpty"
            else:
                raise Shape("eval_builtin_function: guard %s" % g)
        alts = split_alternatives(p)
        for a in alts:
            am = re.fullmatch(r'"(\w+)"', a.strip())
            if not am:
                raise Shape("eval_builtin_function: pattern %s" % a)
            builtins.append((am.group(1), ar))
        first = re.fullmatch(r'"(\w+)"', alts[0].strip()).group(1)
        if first == "abs":
            want_pre = "args.first().and_then(|v|match v{"
            nb = norm(b)
            if not nb.startswith(want_pre):
                raise Shape("abs: unexpected body %s" % nb)
            ainner, _ = block_after(b, r"match\s+v\s*\{")
            for apat, ab in split_arms(ainner):
                q = norm(apat)
                if q == "Value::Int(n)":
                    abs_mode = parse_int_unary(ab, "abs")
                elif q == "Value::Float(f)" and norm(ab) == "Some(Value::Float(f.abs()))":
                    pass
                elif q == "_" and norm(ab) == "None":
                    pass
                else:
                    raise Shape("abs arm %s => %s" % (apat, ab))
        else:
            shape["builtin:" + first] = digest(b)
    if abs_mode is None:
        raise Shape("abs: no Int arm")

    # ---- shape file ----------------------------------------------------------------------------
    if update:
        json.dump(shape, open(SHAPE, "w"), indent=1, sort_keys=True)
        open(SHAPE, "a").write("\n")
        print("shape file updated (%d entries)" % len(shape))
    else:
        want = json.load(open(SHAPE))
        diffs = [k for k in sorted(set(want) | set(shape)) if want.get(k) != shape.get(k)]
        if diffs:
            raise Shape("hand-modelled parts of evaluator.rs differ from the committed shape "
                        "(translate/expr_shape.json): " + ", ".join(diffs))

    # ---- output ---------------------------------------------------------------------------------
    lines = ["(* GENERATED by translate/expr_arms.py from %s -- do not edit. *)" % EVAL,
             "From Coq Require Import String.",
             "From VP Require Import Base.Tactics Expr.Syntax.",
             "Local Open Scope Z_scope.", "Local Open Scope string_scope.", "",
             "Definition arith_arms : list aarm :=", "  [ " + ";\n    ".join(arith) + " ].", "",
             "Definition ord_arms : list oarm :=", "  [ " + ";\n    ".join(ord_arms) + " ].", "",
             "Definition eq_numeric : bool := %s." % eq_numeric[0], "",
             "Definition neg_arms : list (aty * nhow) := [ " + "; ".join(neg_arms) + " ].", "",
             "Definition abs_int_mode : imode := %s." % abs_mode, "",
             "Definition timestamp_literal_handled : bool := %s." % ("true" if ts_handled else "false"), "",
             "Definition fallthrough : fallthrough_kind := %s." % fallthrough, "",
             "Definition builtin_arms : list (string * arity) :=",
             "  [ " + ";\n    ".join('("%s", %s)' % (n, a) for n, a in builtins) + " ].", ""]
    body = "\n".join(lines)
    if not os.path.exists(OUT) or open(OUT).read() != body:
        open(OUT, "w").write(body)
    print("Gen_EvalTables.v: %d ordering arms, " % len(ord_arms) + "%d arithmetic arms, %d neg arms, abs=%s, timestamp=%s, fallthrough=%s, %d builtins" % (
        len(arith), len(neg_arms), abs_mode, ts_handled, fallthrough, len(builtins)))


if __name__ == "__main__":
    try:
        main()
    except Shape as e:
        print("SHAPE: %s" % e)
        sys.exit(1)
