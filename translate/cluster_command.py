#!/usr/bin/env python3
"""T-tie for C35: regenerate coq/theories/Raft/Gen_Commands.v from the Rust source.

Extracts, from <repo>/crates/varpulis-cluster/src/
  raft/mod.rs            enum ClusterCommand        variants, field names, field types
  raft/state_machine.rs  struct CoordinatorState, struct WorkerEntry   fields + types
                         fn apply_command           one arm per variant: state field, action, key/value/target expressions,
                                                    and the WorkerEntry literal of the RegisterWorker arm
  worker.rs WorkerCapacity, connector_config.rs ClusterConnector, model_registry.rs ModelRegistryEntry   fields + types
and writes Gallina that only type-checks against Raft/Model.v when the model's inductive / records
match constructor for constructor and field for field (types through RUST2COQ), plus gen_arm /
gen_register_init which Raft/Props.v proves equal to the model's own tables.
Fails closed (exit 1) when the source does not have the expected shape.
"""
import os
import re
import sys

REPO = os.environ.get("VERIF_REPO", "/repo")
VERIF = os.path.dirname(os.path.dirname(os.path.abspath(__file__)))
SRC = os.path.join(REPO, "crates", "varpulis-cluster", "src")
OUT = os.path.join(VERIF, "coq", "theories", "Raft", "Gen_Commands.v")

RUST2COQ = {
    "String": "str", "Vec<String>": "list str", "serde_json::Value": "json", "Option<serde_json::Value>": "option json",
    "WorkerCapacity": "capacity", "ClusterConnector": "connector",
    "crate::model_registry::ModelRegistryEntry": "model_entry", "usize": "Z", "u64": "Z",
    "HashMap<String, String>": "list (str * str)", "Option<String>": "option str",
    "HashMap<String, WorkerEntry>": "amap worker", "HashMap<String, serde_json::Value>": "amap json",
    "HashMap<String, ClusterConnector>": "amap connector",
    "HashMap<String, crate::model_registry::ModelRegistryEntry>": "amap model_entry",
}
STATE_FIELD = {"workers": "FWorkers", "pipeline_groups": "FGroups", "connectors": "FConnectors",
               "active_migrations": "FMigrations", "scaling_policy": "FPolicy", "models": "FModels"}
# Rust struct -> (Coq record constructor, Coq record type)
STRUCTS = [("worker.rs", "WorkerCapacity", "Build_capacity", "capacity"),
           ("connector_config.rs", "ClusterConnector", "Build_connector", "connector"),
           ("model_registry.rs", "ModelRegistryEntry", "Build_model_entry", "model_entry"),
           ("raft/state_machine.rs", "WorkerEntry", "Build_worker", "worker"),
           ("raft/state_machine.rs", "CoordinatorState", "Build_cstate", "cstate")]


def die(msg):
    sys.stderr.write("cluster_command.py: shape assertion failed: %s\n" % msg)
    sys.exit(1)


def strip_comments(s):
    s = re.sub(r"//[^\n]*", "", s)
    return re.sub(r"/\*.*?\*/", "", s, flags=re.S)


def block_after(src, start):
    """text between the '{' at/after index start and its matching '}'"""
    i = src.index("{", start)
    depth = 0
    for j in range(i, len(src)):
        if src[j] == "{":
            depth += 1
        elif src[j] == "}":
            depth -= 1
            if depth == 0:
                return src[i + 1:j], j + 1
    die("unbalanced braces")


def split_top(s, sep=","):
    out, cur, depth = [], "", 0
    for ch in s:
        if ch in "<({[":
            depth += 1
        elif ch in ">)}]":
            depth -= 1
        if ch == sep and depth == 0:
            out.append(cur)
            cur = ""
        else:
            cur += ch
    if cur.strip():
        out.append(cur)
    return [x.strip() for x in out if x.strip()]


def fields_of(body):
    res = []
    for item in split_top(body):
        item = re.sub(r"#\[[^\]]*\]", "", item).strip()
        item = re.sub(r"^pub\s+", "", item)
        m = re.match(r"^(\w+)\s*:\s*(.+)$", item, re.S)
        if not m:
            die("cannot parse field %r" % item)
        res.append((m.group(1), re.sub(r"\s+", " ", m.group(2).strip())))
    return res


def coq_type(t):
    if t not in RUST2COQ:
        die("unknown Rust type %r (extend the model and RUST2COQ)" % t)
    return RUST2COQ[t]


def parse_enum():
    src = strip_comments(open(os.path.join(SRC, "raft", "mod.rs")).read())
    m = re.search(r"pub enum ClusterCommand\s*\{", src)
    if not m:
        die("enum ClusterCommand not found")
    body, _ = block_after(src, m.start())
    variants = []
    pos = 0
    while True:
        mm = re.compile(r"\s*(\w+)\s*\{").match(body, pos)
        if not mm:
            break
        fb, end = block_after(body, mm.start())
        variants.append((mm.group(1), fields_of(fb)))
        pos = end
        mc = re.compile(r"\s*,").match(body, pos)
        if mc:
            pos = mc.end()
    if body[pos:].strip():
        die("unparsed rest of enum ClusterCommand (non struct-like variant?): %r" % body[pos:pos + 80])
    if not variants:
        die("no variants")
    return variants


def parse_struct(rel, sname):
    src = strip_comments(open(os.path.join(SRC, rel)).read())
    m = re.search(r"pub struct %s\s*\{" % sname, src)
    if not m:
        die("struct %s not found in %s" % (sname, rel))
    body, _ = block_after(src, m.start())
    return fields_of(body)


def parse_arms(variants):
    src = strip_comments(open(os.path.join(SRC, "raft", "state_machine.rs")).read())
    m = re.search(r"pub fn apply_command\s*\(\s*state\s*:\s*&mut CoordinatorState\s*,\s*cmd\s*:\s*ClusterCommand\s*\)\s*->\s*ClusterResponse\s*\{", src)
    if not m:
        die("fn apply_command signature")
    fbody, _ = block_after(src, m.end() - 1)
    mm = re.match(r"\s*match cmd\s*\{", fbody)
    if not mm:
        die("apply_command is not a single `match cmd`")
    mbody, end = block_after(fbody, 0)
    if fbody[end:].strip():
        die("statements after the match in apply_command")
    arms = []
    pos = 0
    arm_re = re.compile(r"\s*ClusterCommand::(\w+)\s*\{([^}]*)\}\s*=>\s*\{")
    while True:
        a = arm_re.match(mbody, pos)
        if not a:
            break
        body, end = block_after(mbody, a.end() - 1)
        binders = [x.strip() for x in a.group(2).split(",") if x.strip()]
        arms.append((a.group(1), binders, body))
        pos = end
        mc = re.compile(r"\s*,").match(mbody, pos)
        if mc:
            pos = mc.end()
    if mbody[pos:].strip():
        die("unparsed rest of match in apply_command: %r" % mbody[pos:pos + 80])
    if [a[0] for a in arms] != [v[0] for v in variants]:
        die("apply_command arms %s differ from enum variants %s" % ([a[0] for a in arms], [v[0] for v in variants]))
    out = []
    reg_init = None
    for (vname, binders, body), (_, vfields) in zip(arms, variants):
        if binders != [f for f, _ in vfields]:
            die("arm %s binds %s, variant has %s" % (vname, binders, [f for f, _ in vfields]))
        b = re.sub(r"\s+", " ", body).strip()
        if not b.endswith("ClusterResponse::Ok"):
            die("arm %s does not end with ClusterResponse::Ok" % vname)
        b = b[:-len("ClusterResponse::Ok")].strip()
        if len(re.findall(r"\bstate\.", b)) != 1:
            die("arm %s: expected exactly one access to state, got %r" % (vname, b))
        key = val = target = ""
        m1 = re.match(r"^state\.(\w+)\.insert\(\s*(.+)\s*\);$", b)
        m2 = re.match(r"^state\.(\w+)\.remove\(\s*&(\w+)\s*\);$", b)
        m3 = re.match(r"^if let Some\((\w+)\) = state\.(\w+)\.get_mut\(&(\w+)\) \{ (.+?) = (.+?); \}$", b)
        m4 = re.match(r'^if let Some\(id\) = task\.get\("id"\)\.and_then\(\|v\| v\.as_str\(\)\) \{ state\.(\w+)\.insert\(\s*(.+)\s*\); \}$', b)
        m5 = re.match(r"^state\.(\w+) = (\w+);$", b)
        if m1:
            field, action = m1.group(1), "AInsert"
            args = split_top(m1.group(2))
            if len(args) != 2:
                die("arm %s: insert with %d args" % (vname, len(args)))
            key, val = args
            if val.startswith("WorkerEntry"):
                lit, _ = block_after(val, 0)
                reg_init = []
                for it in split_top(lit):
                    mf = re.match(r"^(\w+)\s*:\s*(.+)$", it)
                    reg_init.append((mf.group(1), mf.group(2).strip()) if mf else (it, it))
                val = "WorkerEntry"
        elif m2:
            field, action, key = m2.group(1), "ARemove", m2.group(2)
        elif m3:
            field, action, key, target, val = m3.group(2), "AUpdateIfPresent", m3.group(3), m3.group(4).strip(), m3.group(5).strip()
            if not target.startswith(m3.group(1)):
                die("arm %s: assignment target %r is not the looked-up entry" % (vname, target))
        elif m4:
            field, action = m4.group(1), "AInsertIfStrId"
            args = split_top(m4.group(2))
            if len(args) != 2:
                die("arm %s: insert with %d args" % (vname, len(args)))
            key, val = args
        elif m5:
            field, action, val = m5.group(1), "AAssign", m5.group(2)
        else:
            die("arm %s has an unknown shape: %r" % (vname, b))
        if field not in STATE_FIELD:
            die("arm %s touches unknown state field %s" % (vname, field))
        out.append((vname, len(vfields), STATE_FIELD[field], action, key, val, target))
    if reg_init is None:
        die("no WorkerEntry literal found")
    return out, reg_init


def gs(s):
    return '"%s"' % s.replace('"', '""')


def main():
    variants = parse_enum()
    arms, reg_init = parse_arms(variants)
    o = []
    o.append("(* GENERATED on every run by translate/cluster_command.py from %s/crates/varpulis-cluster/src. Do not edit. *)" % REPO)
    o.append("From Coq Require Import String.\nFrom VP Require Import Base.Tactics Raft.Model Raft.Arms.\nOpen Scope string_scope.\n")
    o.append("(* one definition per Rust variant / struct: type-checks only if the model has the same fields, in order, with the mapped types *)")
    for vname, fields in variants:
        o.append("Definition gen_%s : %s := %s." % (vname, " -> ".join([coq_type(t) for _, t in fields] + ["command"]), vname))
    for rel, sname, ctor, cty in STRUCTS:
        fields = parse_struct(rel, sname)
        o.append("Definition gen_struct_%s : %s := %s.  (* %s *)" % (sname, " -> ".join([coq_type(t) for _, t in fields] + [cty]), ctor,
                                                                    ", ".join(f for f, _ in fields)))
    o.append("\n(* exhaustive match in Rust declaration order: compiles only if the model's inductive has exactly these constructors *)")
    o.append("Definition gen_tag (c : command) : nat :=\n  match c with")
    for i, (vname, fields) in enumerate(variants):
        o.append("  | %s %s=> %d" % (vname, "".join("_ " for _ in fields), i))
    o.append("  end.")
    o.append("Definition gen_variant_names : list string := [%s]." % "; ".join(gs(v) for v, _ in variants))
    o.append("Definition gen_field_names : list (list string) := [%s]." % "; ".join("[" + "; ".join(gs(f) for f, _ in fs) + "]" for _, fs in variants))
    o.append("\n(* arms of state_machine.rs apply_command *)")
    o.append("Definition gen_arm (c : command) : arm :=\n  match c with")
    for vname, nf, field, action, key, val, target in arms:
        o.append("  | %s %s=> mk %s %s %s %s %s" % (vname, "_ " * nf, field, action, gs(key), gs(val), gs(target)))
    o.append("  end.")
    o.append("Definition gen_register_init : list (string * string) := [%s]." % "; ".join("(%s, %s)" % (gs(a), gs(b)) for a, b in reg_init))
    body = "\n".join(o) + "\n"
    os.makedirs(os.path.dirname(OUT), exist_ok=True)
    if not os.path.exists(OUT) or open(OUT).read() != body:
        open(OUT, "w").write(body)
    print("cluster_command.py: %d variants, %d arms -> %s" % (len(variants), len(arms), OUT))


if __name__ == "__main__":
    main()
