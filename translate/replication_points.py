#!/usr/bin/env python3
"""T-tie for C38: regenerate coq/theories/Raft/Gen_Replication.v from the Rust source.

For every operation kind of Raft/Sync.v (op_kind) it lists the ClusterCommand variants constructed in the
functions that implement the operation in Raft mode (API handler in cluster/api.rs, coordinator method, branch of
the coordinator health loop in varpulis-cli/src/main.rs), and it extracts the ordered list of coordinator calls
of the health loop (the harness' copy in harness/crates/raft/src/coord.rs must match it; shape asserted here).
Raft/Props.v evaluates `covered` over this table. Fails closed (exit 1) on any unexpected shape.
"""
import os
import re
import sys

REPO = os.environ.get("VERIF_REPO", "/repo")
VERIF = os.path.dirname(os.path.dirname(os.path.abspath(__file__)))
OUT = os.path.join(VERIF, "coq", "theories", "Raft", "Gen_Replication.v")
API = "crates/varpulis-cluster/src/api.rs"
COORD = "crates/varpulis-cluster/src/coordinator.rs"
CLI = "crates/varpulis-cli/src/main.rs"

# operation kind -> functions whose bodies make up the operation (everything they replicate counts)
SOURCES = [
    ("OpRegister", [(API, "handle_register_worker"), (COORD, "register_worker")]),
    ("OpDeregister", [(API, "handle_delete_worker"), (COORD, "deregister_worker")]),
    ("OpDeploy", [(API, "handle_deploy_group"), (COORD, "commit_deploy_group")]),
    ("OpTeardown", [(API, "handle_delete_group"), (COORD, "commit_teardown_group")]),
    ("OpManualMigrate", [(API, "handle_manual_migrate"), (COORD, "commit_migrate_pipeline")]),
    ("OpApiRebalance", [(API, "handle_rebalance"), (COORD, "rebalance"), (COORD, "migrate_pipeline"), (COORD, "commit_migrate_pipeline")]),
    ("OpDrain", [(API, "handle_drain_worker"), (COORD, "drain_worker"), (COORD, "migrate_pipeline"), (COORD, "commit_migrate_pipeline")]),
    ("OpFailover", [("HEALTH_LOOP_FAILURE_BRANCH", None), (COORD, "health_sweep"), (COORD, "handle_worker_failure"), (COORD, "migrate_pipeline"), (COORD, "commit_migrate_pipeline")]),
    ("OpAutoRebalance", [(COORD, "rebalance"), (COORD, "migrate_pipeline"), (COORD, "commit_migrate_pipeline")]),
    ("OpReconcile", [(COORD, "reconcile_placements")]),
    ("OpRecovery", [(API, "handle_heartbeat"), (COORD, "heartbeat")]),
    ("OpConnectorCreate", [(API, "handle_create_connector"), (COORD, "create_connector")]),
    ("OpConnectorUpdate", [(API, "handle_update_connector"), (COORD, "update_connector")]),
    ("OpConnectorDelete", [(API, "handle_delete_connector"), (COORD, "delete_connector")]),
    ("OpSetScalingPolicy", [("SCALING_POLICY_SETUP", None)]),
]
# the coordinator calls of the health loop, in order (harness/crates/raft/src/coord.rs health_tick mirrors this)
HEALTH_LOOP = ["update_raft_role", "sync_from_raft", "health_sweep", "handle_worker_failure", "check_connector_health",
               "cleanup_completed_migrations", "reconcile_placements", "rebalance", "evaluate_scaling", "fire_scaling_webhook"]


def die(msg):
    sys.stderr.write("replication_points.py: shape assertion failed: %s\n" % msg)
    sys.exit(1)


def strip_comments(s):
    s = re.sub(r"//[^\n]*", "", s)
    return re.sub(r"/\*.*?\*/", "", s, flags=re.S)


_cache = {}


def src(rel):
    if rel not in _cache:
        p = os.path.join(REPO, rel)
        if not os.path.exists(p):
            die("missing file %s" % rel)
        _cache[rel] = strip_comments(open(p).read())
    return _cache[rel]


def block_from(s, i):
    i = s.index("{", i)
    depth = 0
    for j in range(i, len(s)):
        if s[j] == "{":
            depth += 1
        elif s[j] == "}":
            depth -= 1
            if depth == 0:
                return s[i + 1:j]
    die("unbalanced braces")


def fn_body(rel, name):
    s = src(rel)
    ms = list(re.finditer(r"\bfn %s\s*(?:<[^>]*>)?\s*\(" % re.escape(name), s))
    # skip test functions: take definitions before the first #[cfg(test)]
    cut = s.find("#[cfg(test)]")
    ms = [m for m in ms if cut < 0 or m.start() < cut]
    if len(ms) != 1:
        die("expected exactly one fn %s in %s, found %d" % (name, rel, len(ms)))
    # the body starts at the first '{' after the closing of the signature: find "{" after the matching ")" and optional return type
    depth, k = 0, ms[0].end() - 1
    for k in range(ms[0].end() - 1, len(s)):
        if s[k] == "(":
            depth += 1
        elif s[k] == ")":
            depth -= 1
            if depth == 0:
                break
    return block_from(s, k)


def health_loop_body():
    s = src(CLI)
    i = s.find("let health_coordinator = coordinator.clone();")
    if i < 0:
        die("health loop: `let health_coordinator = coordinator.clone();` not found in %s" % CLI)
    j = s.find("tokio::spawn(async move", i)
    if j < 0 or j - i > 400:
        die("health loop: tokio::spawn not right after health_coordinator")
    return block_from(s, j)


def commands_in(text):
    return re.findall(r"ClusterCommand::(\w+)\s*\{", text)


def main():
    loop = health_loop_body()
    calls = [c for c in re.findall(r"\bcoord\.(\w+)\(", loop) if c in HEALTH_LOOP]
    # dedupe consecutive repeats (a call may appear once only)
    if calls != HEALTH_LOOP:
        die("health loop calls %s, expected %s" % (calls, HEALTH_LOOP))
    a = loop.index("coord.health_sweep(")
    b = loop.index("coord.check_connector_health(")
    failure_branch = loop[a:b]
    if "workers_marked_unhealthy" not in failure_branch:
        die("health loop: failure branch not between health_sweep and check_connector_health")
    before_sweep = loop[:a]
    if "is_writer()" not in before_sweep or before_sweep.index("coord.sync_from_raft(") > before_sweep.index("is_writer()"):
        die("health loop: expected sync_from_raft before the is_writer() guard")
    rest_cmds = commands_in(loop[:a]) + commands_in(loop[b:])
    if rest_cmds:
        die("health loop replicates %s outside the failure branch: extend op_kind / SOURCES" % rest_cmds)
    # scaling policy set-up: every assignment to .scaling_policy outside the raft module and outside sync_from_raft
    setup = ""
    cli = src(CLI)
    for m in re.finditer(r"\.scaling_policy\s*=[^=]", cli):
        setup += cli[max(0, m.start() - 600):m.end() + 600]
    if not setup:
        die("no assignment to .scaling_policy found in %s" % CLI)
    sent_anywhere = []
    for rel in (API, COORD, CLI):
        sent_anywhere += commands_in(src(rel))
    rows = []
    for op, parts in SOURCES:
        cmds = []
        for rel, fn in parts:
            if rel == "HEALTH_LOOP_FAILURE_BRANCH":
                text = failure_branch
            elif rel == "SCALING_POLICY_SETUP":
                text = setup
            else:
                text = fn_body(rel, fn)
            for c in commands_in(text):
                if c not in cmds:
                    cmds.append(c)
        rows.append((op, cmds))
    # every command constructed anywhere in api.rs / coordinator.rs / cli main.rs must be attributed to some operation
    attributed = {c for _, cs in rows for c in cs}
    extra = sorted(set(sent_anywhere) - attributed - {"ModelRegistered", "ModelRemoved"})
    if extra:
        die("commands %s are replicated somewhere that no op_kind covers: extend SOURCES" % extra)
    o = ["(* GENERATED on every run by translate/replication_points.py from %s. Do not edit. *)" % REPO,
         "From Coq Require Import String.\nFrom VP Require Import Base.Tactics Raft.Model Raft.Sync.\nOpen Scope string_scope.\n",
         "(* ClusterCommand variants constructed by the functions that implement each operation in Raft mode *)",
         "Definition gen_replicates (o : op_kind) : list string :=\n  match o with"]
    for op, cmds in rows:
        o.append("  | %s => [%s]" % (op, "; ".join('"%s"' % c for c in cmds)))
    o.append("  end.")
    o.append("Definition gen_health_loop : list string := [%s]." % "; ".join('"%s"' % c for c in calls))
    body = "\n".join(o) + "\n"
    if not os.path.exists(OUT) or open(OUT).read() != body:
        open(OUT, "w").write(body)
    print("replication_points.py: " + "; ".join("%s=%s" % (op[2:], ",".join(c) or "-") for op, c in rows))


if __name__ == "__main__":
    main()
