#!/usr/bin/env python3
"""T-tie for C29: regenerate coq/theories/Rbac/Gen_Routes.v from the three warp route builders.

Sources (and nothing else):
  crates/varpulis-cluster/src/api.rs          fn cluster_routes            -> cluster_routes
  crates/varpulis-cluster/src/raft/routes.rs  fn raft_routes               -> raft_routes
  crates/varpulis-cli/src/api.rs              fn api_routes + fn tenant_admin_routes -> cli_routes
For every route (`let <name> = <prefix>.and(..)...and_then(<handler>)`) the ordered list of filter stages is
extracted (path literal / param / end, method, rate-limit, auth filter with its role, body limit, body json,
query, state injection, handler), and the routes are listed in the order of the final `.or` chain (groups
such as `worker_routes` and the nested `tenant_admin_routes` expanded in place).  For the CLI handlers the
first action of the handler body (tenant key lookup / admin key validation, returning before anything else)
is extracted as the handler prologue.  The small auth helper filters the Coq model hard-codes
(with_rbac, with_optional_raft_auth, with_api_key, with_admin_key, validate_admin_key) are pinned by the
hash of their whitespace-normalised text against translate/routes_shape.json.

Anything that does not have the expected shape makes the translator exit non-zero (fail closed).
"""
import hashlib
import json
import os
import re
import sys

sys.path.insert(0, os.path.dirname(os.path.dirname(os.path.abspath(__file__))))
from vplib.common import REPO, COQ  # noqa: E402

CLUSTER = "crates/varpulis-cluster/src/api.rs"
RAFT = "crates/varpulis-cluster/src/raft/routes.rs"
CLI = "crates/varpulis-cli/src/api.rs"
SHAPE = os.path.join(os.path.dirname(os.path.abspath(__file__)), "routes_shape.json")


class Shape(Exception):
    pass


def strip_comments(src):
    out = []
    i, n = 0, len(src)
    while i < n:
        c = src[i]
        if c == '"':
            j = i + 1
            while j < n and src[j] != '"':
                j += 2 if src[j] == "\\" else 1
            out.append(src[i:j + 1])
            i = j + 1
        elif src.startswith("//", i):
            while i < n and src[i] != "\n":
                i += 1
        elif src.startswith("/*", i):
            i = src.index("*/", i) + 2
        else:
            out.append(c)
            i += 1
    return "".join(out)


def match_close(src, i, open_c, close_c):
    """src[i] == open_c; index of the matching close_c (strings skipped)."""
    depth = 0
    j = i
    n = len(src)
    while j < n:
        c = src[j]
        if c == '"':
            j += 1
            while src[j] != '"':
                j += 2 if src[j] == "\\" else 1
        elif c == "'" and j + 2 < n and src[j + 2] == "'":
            j += 2
        elif c == open_c:
            depth += 1
        elif c == close_c:
            depth -= 1
            if depth == 0:
                return j
        j += 1
    raise Shape("unbalanced %s%s" % (open_c, close_c))


def fn_text(src, name):
    """(signature, body) of the free function `name`."""
    ms = list(re.finditer(r"\bfn\s+%s\s*(<[^>]*>)?\s*\(" % re.escape(name), src))
    if len(ms) != 1:
        raise Shape("expected exactly one fn %s, found %d" % (name, len(ms)))
    m = ms[0]
    p_open = src.index("(", m.start())
    p_close = match_close(src, p_open, "(", ")")
    i = src.index("{", p_close)
    j = match_close(src, i, "{", "}")
    return src[m.start():i], src[i + 1:j]


def norm(s):
    return re.sub(r"\s+", "", s)


def split_statements(body):
    """top-level `;`-separated statements of a block body (nested (), {}, [] skipped)."""
    stmts, depth, cur, i, n = [], 0, [], 0, len(body)
    while i < n:
        c = body[i]
        if c == '"':
            j = i + 1
            while body[j] != '"':
                j += 2 if body[j] == "\\" else 1
            cur.append(body[i:j + 1])
            i = j + 1
            continue
        if c in "({[":
            depth += 1
        elif c in ")}]":
            depth -= 1
        if c == ";" and depth == 0:
            stmts.append("".join(cur).strip())
            cur = []
        else:
            cur.append(c)
        i += 1
    tail = "".join(cur).strip()
    return stmts, tail


def split_chain(expr):
    """`base.m1(args).m2(args)` -> (base, [(m1, args), ...]); base is an identifier or a call like warp::path("x")."""
    expr = expr.strip()
    m = re.match(r"[A-Za-z_][\w:]*(::<[^>]*>)?", expr)
    if not m:
        raise Shape("cannot parse chain head: %s" % expr[:80])
    i = m.end()
    base = expr[:i]
    if i < len(expr) and expr[i] == "(":
        j = match_close(expr, i, "(", ")")
        base = expr[:j + 1]
        i = j + 1
    calls = []
    while i < len(expr):
        mm = re.match(r"\s*\.\s*([a-z_]+)\s*\(", expr[i:])
        if not mm:
            raise Shape("cannot parse chain tail: %s" % expr[i:i + 80])
        p = i + mm.end() - 1
        q = match_close(expr, p, "(", ")")
        calls.append((mm.group(1), expr[p + 1:q].strip()))
        i = q + 1
    return base, calls


STAGE_PATTERNS = [
    (r'^warp::path\("([A-Za-z0-9_-]+)"\)$', lambda m: 'SPath (PLit "%s")' % m.group(1)),
    (r"^warp::path::param::<String>\(\)$", lambda m: "SPath PParam"),
    (r"^warp::path::end\(\)$", lambda m: "SEnd"),
    (r"^warp::get\(\)$", lambda m: "SMeth GET"),
    (r"^warp::post\(\)$", lambda m: "SMeth POST"),
    (r"^warp::put\(\)$", lambda m: "SMeth PUT"),
    (r"^warp::delete\(\)$", lambda m: "SMeth DELETE"),
    (r"^rate_limit_filter(\.clone\(\))?$", lambda m: "SRate"),
    (r"^with_rbac\(rbac(\.clone\(\))?,Role::(Viewer|Operator|Admin)\)$", lambda m: "SAuth (ARbac %s)" % m.group(2)),
    (r"^with_optional_raft_auth\(admin_key(\.clone\(\))?\)$", lambda m: "SAuth ARaft"),
    (r"^with_api_key\(\)$", lambda m: "SAuth AHdrApiKey"),
    (r"^with_admin_key\(\)$", lambda m: "SAuth AHdrAdminKey"),
    (r"^warp::body::content_length_limit\((JSON_BODY_LIMIT|LARGE_BODY_LIMIT)\)$", lambda m: "SBodyLimit"),
    (r"^warp::body::json\(\)$", lambda m: "SBodyJson"),
    (r"^warp::query::<PaginationParams>\(\)$", lambda m: "SQuery"),
    (r"^with_coordinator\(coordinator\.clone\(\)\)$", lambda m: "SState"),
    (r"^with_manager\(manager\.clone\(\)\)$", lambda m: "SState"),
    (r"^with_raft\(raft(\.clone\(\))?\)$", lambda m: "SState"),
    (r"^with_admin_key_config\(admin_key(\.clone\(\))?\)$", lambda m: "SState"),
]


def stage_of(arg):
    a = norm(arg)
    for pat, f in STAGE_PATTERNS:
        m = re.match(pat, a)
        if m:
            return f(m)
    raise Shape("unknown filter in a route: .and(%s)" % arg[:120])


def parse_builder(src, fname, known_prefix_vars):
    """-> (routes: {name: [stages]}, order: [names in the final .or chain], nested: {name: (fn, args)})"""
    sig, body = fn_text(src, fname)
    stmts, tail = split_statements(body)
    prefixes = {}
    routes = {}
    groups = {}
    nested = {}
    seen_lets = []
    for st in stmts:
        m = re.match(r"let\s+([a-z_][a-z0-9_]*)\s*=\s*(.*)$", st, re.S)
        if not m:
            raise Shape("%s: unexpected statement: %s" % (fname, st[:100]))
        name, expr = m.group(1), m.group(2).strip()
        seen_lets.append(name)
        if name in ("rate_limit_filter", "cors", "request_log"):
            continue
        if re.match(r"^[a-z_]+\s*\(", expr) and "and_then" not in expr:
            # nested builder call, e.g. tenant_admin_routes(manager.clone(), admin_key)
            mm = re.match(r"^([a-z_]+)\s*\((.*)\)$", expr, re.S)
            nested[name] = (mm.group(1), norm(mm.group(2)))
            continue
        base, calls = split_chain(expr)
        meths = [c[0] for c in calls]
        if "and_then" in meths:
            if meths[-1] == "boxed":
                calls = calls[:-1]
                meths = meths[:-1]
            if meths[-1] != "and_then" or any(x != "and" for x in meths[:-1]):
                raise Shape("%s: route %s is not of the form prefix.and(..)*.and_then(handler): %s" % (fname, name, meths))
            if base not in prefixes:
                raise Shape("%s: route %s starts from %s, which is not a known path prefix" % (fname, name, base))
            stages = list(prefixes[base]) + [stage_of(a) for (_, a) in calls[:-1]]
            h = norm(calls[-1][1])
            if not re.match(r"^handle_[a-z_]+$", h):
                raise Shape("%s: route %s: handler %s" % (fname, name, h))
            stages.append('SHandler "%s"' % h)
            routes[name] = stages
        elif meths and all(x in ("or", "boxed") for x in meths) and "or" in meths:
            members = [base] + [norm(a) for (mname, a) in calls if mname == "or"]
            groups[name] = members
        elif all(x == "and" for x in meths) and re.match(r'^warp::path\("', norm(base)):
            prefixes[name] = [stage_of(base)] + [stage_of(a) for (_, a) in calls]
        else:
            raise Shape("%s: cannot classify `let %s = %s`" % (fname, name, expr[:100]))
    if fname in known_prefix_vars and set(prefixes) != set(known_prefix_vars[fname]):
        raise Shape("%s: path prefixes %s, expected %s" % (fname, sorted(prefixes), known_prefix_vars[fname]))
    # final expression: a.or(b)...[.with(cors)][.with(request_log)]
    base, calls = split_chain(tail)
    order = [base]
    for mname, a in calls:
        if mname == "or":
            order.append(norm(a))
        elif mname == "with":
            if norm(a) not in ("cors", "request_log"):
                raise Shape("%s: unexpected wrapper .with(%s)" % (fname, a))
        else:
            raise Shape("%s: unexpected combinator .%s in the final chain" % (fname, mname))

    def expand(n):
        if n in groups:
            return [x for g in groups[n] for x in expand(g)]
        return [n]
    flat = [x for n in order for x in expand(n)]
    for n in flat:
        if n not in routes and n not in nested:
            raise Shape("%s: `%s` in the .or chain is neither a route nor a nested builder" % (fname, n))
    if len(set(flat)) != len(flat):
        raise Shape("%s: a route appears twice in the .or chain" % fname)
    missing = [r for r in routes if r not in flat] + [r for r in nested if r not in flat]
    if missing:
        raise Shape("%s: routes defined but not served: %s" % (fname, missing))
    n_and_then = len(re.findall(r"\.\s*and_then\s*\(", body))
    if n_and_then != len(routes) + (1 if "rate_limit_filter" in seen_lets else 0):
        raise Shape("%s: %d `.and_then(` in the body but %d routes parsed" % (fname, n_and_then, len(routes)))
    return routes, flat, nested


def check_route_wellformed(name, stages):
    hs = [s for s in stages if s.startswith("SHandler")]
    if len(hs) != 1 or not stages[-1].startswith("SHandler"):
        raise Shape("route %s: handler is not the last stage" % name)
    if sum(1 for s in stages if s.startswith("SMeth")) != 1:
        raise Shape("route %s: expected exactly one method filter" % name)
    if sum(1 for s in stages if s == "SEnd") != 1:
        raise Shape("route %s: expected exactly one warp::path::end()" % name)


TENANT_PROLOGUE = re.compile(
    r"^(?P<pre>ifpagination\.exceeds_max\(\)\{returnOk\(error_response\(StatusCode::BAD_REQUEST,\"invalid_limit\",&format!\(\"limitmustnotexceed\{MAX_LIMIT\}\"\),\)\);\})?"
    r"let(mut)?mgr=manager\.(read|write)\(\)\.await;"
    r"lettenant_id=matchmgr\.get_tenant_by_api_key\(&api_key\)\{Some\(id\)=>id\.clone\(\),"
    r"None=>\{returnOk\(error_response\(StatusCode::UNAUTHORIZED,\"(invalid_api_key|invalid_key)\",\"InvalidAPIkey\",\)\)\}\};")
ADMIN_PROLOGUE = re.compile(r"^ifletErr\(resp\)=validate_admin_key\(&admin_key,&configured_key\)\{returnOk\(resp\);\}")


def cli_prologue(src, handler):
    sig, body = fn_text(src, handler)
    b = norm(body)
    m = TENANT_PROLOGUE.match(b)
    if m:
        if "api_key:String" not in norm(sig):
            raise Shape("%s: tenant prologue but no api_key parameter" % handler)
        return "HTenantKey %s" % ("true" if m.group("pre") else "false")
    if ADMIN_PROLOGUE.match(b):
        if "admin_key:String" not in norm(sig) or "configured_key:Option<String>" not in norm(sig):
            raise Shape("%s: admin prologue but unexpected parameters" % handler)
        return "HAdminKey"
    raise Shape("%s: the handler does not start with the tenant-key lookup or the admin-key validation" % handler)


def helper_hashes(cluster_src, raft_src, cli_src):
    hs = {}
    for tag, src, name in (("cluster", cluster_src, "with_rbac"), ("raft", raft_src, "with_optional_raft_auth"),
                           ("cli", cli_src, "with_api_key"), ("cli", cli_src, "with_admin_key"),
                           ("cli", cli_src, "with_admin_key_config"), ("cli", cli_src, "validate_admin_key")):
        sig, body = fn_text(src, name)
        hs["%s::%s" % (tag, name)] = hashlib.sha256(norm(sig + "{" + body + "}").encode()).hexdigest()[:16]
    m = re.search(r"let\s+rate_limit_filter\s*=\s*\{", cluster_src)
    if not m:
        raise Shape("cluster_routes: rate_limit_filter definition not found")
    j = match_close(cluster_src, m.end() - 1, "{", "}")
    hs["cluster::rate_limit_filter"] = hashlib.sha256(norm(cluster_src[m.end() - 1:j + 1]).encode()).hexdigest()[:16]
    return hs


def extract(repo=REPO):
    cluster_src = strip_comments(open(os.path.join(repo, CLUSTER)).read())
    raft_src = strip_comments(open(os.path.join(repo, RAFT)).read())
    cli_src = strip_comments(open(os.path.join(repo, CLI)).read())
    prefix_vars = {"cluster_routes": ["api"], "raft_routes": ["raft_prefix"], "api_routes": ["api"], "tenant_admin_routes": ["api"]}
    c_routes, c_order, c_nested = parse_builder(cluster_src, "cluster_routes", prefix_vars)
    r_routes, r_order, r_nested = parse_builder(raft_src, "raft_routes", prefix_vars)
    a_routes, a_order, a_nested = parse_builder(cli_src, "api_routes", prefix_vars)
    t_routes, t_order, t_nested = parse_builder(cli_src, "tenant_admin_routes", prefix_vars)
    if c_nested or r_nested or t_nested:
        raise Shape("unexpected nested builder call")
    if a_nested != {"admin_routes": ("tenant_admin_routes", "manager.clone(),admin_key")}:
        raise Shape("api_routes: nested builders %s" % a_nested)
    cli_order = []
    cli_routes = dict(a_routes)
    for n in a_order:
        if n == "admin_routes":
            for t in t_order:
                if t in cli_routes:
                    raise Shape("route name %s used twice" % t)
                cli_routes[t] = t_routes[t]
                cli_order.append(t)
        else:
            cli_order.append(n)
    # cluster_routes_with_raft = raft_routes(raft, rbac.any_admin_key()).or(cluster_routes(..))
    sig, body = fn_text(cluster_src, "cluster_routes_with_raft")
    want = norm("let raft_routes = crate::raft::routes::raft_routes(raft, rbac.any_admin_key());"
                "let cluster = cluster_routes(coordinator, rbac, rate_limiter); raft_routes.or(cluster)")
    if norm(body) != want:
        raise Shape("cluster_routes_with_raft no longer is raft_routes(raft, rbac.any_admin_key()).or(cluster_routes(..))")
    tables = {"cluster_routes": [(n, c_routes[n]) for n in c_order],
              "raft_routes": [(n, r_routes[n]) for n in r_order],
              "cli_routes": [(n, cli_routes[n]) for n in cli_order]}
    for tname, tbl in tables.items():
        for n, st in tbl:
            check_route_wellformed("%s.%s" % (tname, n), st)
    prologues = []
    for n, st in tables["cli_routes"]:
        h = st[-1][len('SHandler "'):-1]
        prologues.append((h, cli_prologue(cli_src, h)))
    # cluster and raft handlers receive the unit produced by the auth filter as a parameter when the route has one
    for tname, src in (("cluster_routes", cluster_src), ("raft_routes", raft_src)):
        for n, st in tables[tname]:
            h = st[-1][len('SHandler "'):-1]
            sig, _ = fn_text(src, h)
            has_auth = any(s.startswith("SAuth") for s in st)
            if has_auth != ("_auth:()" in norm(sig)):
                raise Shape("%s: handler %s %s an `_auth: ()` parameter but the route %s an auth filter"
                            % (n, h, "has" if not has_auth else "lacks", "lacks" if not has_auth else "has"))
    hashes = helper_hashes(cluster_src, raft_src, cli_src)
    return tables, prologues, hashes


def render(tables, prologues):
    out = ["(* GENERATED by translate/routes.py on every run from",
           "   %s (cluster_routes, cluster_routes_with_raft)," % CLUSTER,
           "   %s (raft_routes)," % RAFT,
           "   %s (api_routes, tenant_admin_routes and the first action of every CLI handler)." % CLI,
           "   Do not edit.  Routes are listed in the order of the `.or` chain; stages in the order of the `.and` chain. *)",
           "From Coq Require Import String List.", "Import ListNotations.", "Open Scope string_scope.",
           "From VP Require Import Rbac.Syntax.", ""]
    for tname in ("cluster_routes", "raft_routes", "cli_routes"):
        out.append("Definition %s : list route :=" % tname)
        rows = []
        for n, st in tables[tname]:
            rows.append('  mkRoute "%s"\n    [%s]' % (n, "; ".join(st)))
        out.append("[\n" + ";\n".join(rows) + "\n].")
        out.append("")
    out.append("Definition cli_prologues : list (string * hprologue) :=")
    out.append("[\n" + ";\n".join('  ("%s", %s)' % hp for hp in prologues) + "\n].")
    out.append("")
    return "\n".join(out)


def main():
    try:
        tables, prologues, hashes = extract()
        if "--print-shape" in sys.argv:
            print(json.dumps({"helpers": hashes}, indent=1, sort_keys=True))
            return 0
        shape = json.load(open(SHAPE))
        if shape.get("helpers") != hashes:
            diff = sorted(k for k in set(hashes) | set(shape.get("helpers", {})) if hashes.get(k) != shape.get("helpers", {}).get(k))
            raise Shape("auth helper filters changed (the Coq model of these helpers is hand-written): %s" % diff)
    except (Shape, OSError, ValueError, KeyError, IndexError) as e:
        print("routes.py: shape assertion failed: %s" % e, file=sys.stderr)
        return 2
    body = render(tables, prologues)
    out = os.path.join(COQ, "theories", "Rbac", "Gen_Routes.v")
    os.makedirs(os.path.dirname(out), exist_ok=True)
    if not os.path.exists(out) or open(out).read() != body:
        open(out, "w").write(body)
    print("routes: cluster=%d raft=%d cli=%d" % tuple(len(tables[t]) for t in ("cluster_routes", "raft_routes", "cli_routes")))
    return 0


if __name__ == "__main__":
    sys.exit(main())
