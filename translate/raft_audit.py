#!/usr/bin/env python3
"""Regenerates coq/audit/C35.v, C36.v, C37.v, C38.v from coq/theories/Raft/Props.v: one
`Check (name : statement).` + `Print Assumptions name.` per theorem/example whose name starts with the
property id. Run by hand after editing Props.v (the audit files are committed; the checks compile them)."""
import os
import re

VERIF = os.path.dirname(os.path.dirname(os.path.abspath(__file__)))
src = open(os.path.join(VERIF, "coq/theories/Raft/Props.v")).read()
imports = re.search(r"(From Coq Require Import.*?Open Scope Z_scope\.)", src, re.S).group(1)
imports = imports.replace("Open Scope Z_scope.", "From VP Require Import Raft.Props.\nOpen Scope Z_scope.")
items = re.findall(r"(?:Theorem|Example)\s+(\w+)\s*:\s*(.*?)\.\s*\nProof", src, re.S)
out = {}
for name, stmt in items:
    k = name[:3]
    stmt = re.sub(r"\(\*.*?\*\)", "", stmt, flags=re.S).strip()
    out.setdefault(k, imports + "\n")
    out[k] += "Check (%s :\n  %s).\nPrint Assumptions %s.\n" % (name, stmt, name)
for k, v in out.items():
    open(os.path.join(VERIF, "coq/audit/%s.v" % k), "w").write(v)
    print(k, v.count("Print Assumptions"))
