#!/usr/bin/env python3
"""T-tie for C10: regenerate coq/theories/Expr/Gen_FoldRules.v from
crates/varpulis-parser/src/optimize.rs.

Extracted into tables the model's folder is driven by:
  * fold_binary: every `match (&op, &left, &right) { .. }` block, in order, is one *phase*; each
    `(BinOp::Op, <pat>, <pat>) [| ..] [if guard] => <result>` arm becomes a rule (operator, operand
    patterns, guard, action); the first matching arm of a phase decides that phase, a phase that
    produces nothing falls through to the next one and finally to the reconstruction of the
    `Expr::Binary` node.  Recognised function skeletons: the original one (arms `return` the folded
    expression) and the `let folded = match .. ; match folded { Some(expr) => expr, None => rebuild }`
    form.
  * fold_unary: the `(UnaryOp::Neg, Expr::Int(a) | Expr::Float(a))` arms.
Compared by digest with translate/fold_shape.json (fail closed): fold_expr (which constructors the
folder recurses through) and fold_arg, which Expr/Model.v mirrors by hand.
Anything unexpected => exit status 1 => the check reports a broken tie.
"""
import json
import os
import re
import sys

sys.path.insert(0, os.path.dirname(os.path.dirname(os.path.abspath(__file__))))
from vplib.common import REPO, COQ  # noqa: E402
from translate.expr_rs import (Shape, strip_comments, match_close, fn_body, norm, unbrace, split_arms,  # noqa: E402
                               split_guard, split_alternatives, digest)

OPT = "crates/varpulis-parser/src/optimize.rs"
SHAPE = os.path.join(os.path.dirname(os.path.abspath(__file__)), "fold_shape.json")
OUT = os.path.join(COQ, "theories", "Expr", "Gen_FoldRules.v")

IOPS = {"add": "IAdd", "sub": "ISub", "mul": "IMul", "div": "IDiv", "rem": "IRem"}
SYM_I = {"+": "IAdd", "-": "ISub", "*": "IMul", "/": "IDiv", "%": "IRem"}
SYM_F = {"+": "FAdd", "-": "FSub", "*": "FMul", "/": "FDiv", "%": "FRem"}
BINOPS = ["Add", "Sub", "Mul", "Div", "Mod", "Pow", "Eq", "NotEq", "Lt", "Le", "Gt", "Ge", "In", "NotIn", "Is",
          "And", "Or", "Xor", "FollowedBy", "BitAnd", "BitOr", "BitXor", "Shl", "Shr"]
COQ_BINOP = {"Eq": "Eq_", "Lt": "Lt_", "Gt": "Gt_", "In": "In_"}


def zlit(s):
    return "(%d)" % int(s)


def pat_of(p):
    p = norm(p)
    if p == "_":
        return "PAny"
    m = re.fullmatch(r"Expr::Int\((a|b)\)", p)
    if m:
        return "PIntAny"
    m = re.fullmatch(r"Expr::Int\((-?\d+)\)", p)
    if m:
        return "(PIntLit %s)" % zlit(m.group(1))
    if re.fullmatch(r"Expr::Float\((a|b)\)", p):
        return "PFloatAny"
    raise Shape("fold_binary: unrecognised operand pattern %s" % p)


def action_of(body, returning):
    """returning: arms `return` an Expr (original skeleton); otherwise arms are Option<Expr> values"""
    b = norm(unbrace(body))
    if returning:
        m = re.fullmatch(r"return (.*?);?", re.sub(r"^return", "return ", b))
        if not m:
            raise Shape("fold_binary: arm does not return: %s" % b)
        b = m.group(1).strip()
        optional = None
    else:
        m = re.fullmatch(r"Some\((.*)\)", b)
        if m:
            b = m.group(1)
            optional = None
        else:
            m = re.fullmatch(r"a\.checked_(add|sub|mul|div|rem)\(\*b\)\.map\(Expr::Int\)", b)
            if m:
                return "FAInt Checked %s" % IOPS[m.group(1)]
            raise Shape("fold_binary: unrecognised arm value %s" % b)
    m = re.fullmatch(r"Expr::Int\(a\.wrapping_(add|sub|mul|div|rem)\(\*b\)\)", b)
    if m:
        return "FAInt Wrapping %s" % IOPS[m.group(1)]
    m = re.fullmatch(r"Expr::Int\(a([-+*/%])b\)", b)
    if m:
        return "FAInt Raw %s" % SYM_I[m.group(1)]
    if b == "Expr::Int(a.wrapping_pow(*b as u32))":
        return "FAPowWrapping"
    if b == "Expr::Int((*a as f64).powi(*b as i32)as i64)":
        return "FAPowEval"
    m = re.fullmatch(r"Expr::Float\(a([-+*/%])b\)", b)
    if m:
        return "FAFloat %s" % SYM_F[m.group(1)]
    m = re.fullmatch(r"Expr::Int\((-?\d+)\)", b)
    if m:
        return "FAConstInt %s" % zlit(m.group(1))
    if b == "left":
        return "FALeft"
    if b == "right":
        return "FARight"
    raise Shape("fold_binary: unrecognised folded expression %s" % b)


def find_matches(body, scrutinee):
    """all `match <scrutinee> { .. }` blocks: list of (start, end_exclusive, inner)"""
    res = []
    for m in re.finditer(r"match\s*" + scrutinee + r"\s*\{", body):
        i = m.end() - 1
        j = match_close(body, i)
        res.append((m.start(), j + 1, body[i + 1:j]))
    return res


REBUILD_BIN = "Expr::Binary{op,left:Box::new(left),right:Box::new(right)}"
REBUILD_UN = "Expr::Unary{op,expr:Box::new(inner)}"


def main():
    update = "--update-shape" in sys.argv
    src = strip_comments(open(os.path.join(REPO, OPT)).read())
    # the unit tests of optimize.rs are not part of the folder
    cut = src.find("#[cfg(test)]")
    if cut > 0:
        src = src[:cut]

    # ---- fold_binary -----------------------------------------------------------------------------
    body = fn_body(src, "fold_binary")
    blocks = find_matches(body, r"\(\s*&op\s*,\s*&left\s*,\s*&right\s*\)")
    if not blocks:
        raise Shape("fold_binary: no match on (&op, &left, &right)")
    skeleton = body
    for k, (s, e, _) in reversed(list(enumerate(blocks))):
        skeleton = skeleton[:s] + "<M%d>" % k + skeleton[e:]
    sk = norm(skeleton)
    # the skeleton is a sequence of phases followed by the reconstruction of the Binary node:
    #   <Mk>                                                          arms `return` the folded expression
    #   let folded=<Mk>;if let Some(expr)=folded{return expr;}        arms are Option<Expr> values
    #   let folded=<Mk>;match folded{Some(expr)=>expr,None=>REBUILD}  (last phase only)
    styles = []
    rest = sk
    k = 0
    done = False
    while not done:
        opt = "let folded=<M%d>;if let Some(expr)=folded{return expr;}" % k
        last = "let folded=<M%d>;match folded{Some(expr)=>expr,None=>%s}" % (k, REBUILD_BIN)
        ret = "<M%d>" % k
        if rest.startswith(opt):
            styles.append(False)
            rest = rest[len(opt):]
        elif rest == last:
            styles.append(False)
            rest = ""
            done = True
        elif rest.startswith(ret):
            styles.append(True)
            rest = rest[len(ret):]
        elif rest == REBUILD_BIN:
            done = True
            rest = ""
        else:
            raise Shape("fold_binary: unrecognised function skeleton: %s" % sk)
        k += 1
    if len(styles) != len(blocks):
        raise Shape("fold_binary: unrecognised function skeleton: %s" % sk)
    phases = []
    for (_, _, inner), returning in zip(blocks, styles):
        rules = []
        arms = split_arms(inner)
        last_pat, last_body = arms[-1]
        if norm(last_pat) != "_" or norm(last_body) not in (("{}",) if returning else ("None",)):
            raise Shape("fold_binary: last arm of a match is %s => %s" % (last_pat, last_body))
        for pat, b in arms[:-1]:
            p, g = split_guard(pat)
            if g is None:
                guard = "FGNone"
            else:
                guard = {"*b!=0": "FGRightIntNZ", "*b!=0.0": "FGRightFloatNZ", "*b>=0": "FGRightIntNonNeg"}.get(norm(g))
                if guard is None:
                    raise Shape("fold_binary: unrecognised guard %s" % g)
            act = action_of(b, returning)
            for alt in split_alternatives(p):
                m = re.fullmatch(r"\(BinOp::(\w+),(.+),(.+)\)", norm(alt))
                if not m or m.group(1) not in BINOPS:
                    raise Shape("fold_binary: unrecognised arm pattern %s" % alt)
                # split the two operand patterns at the top-level comma
                a = norm(alt)[1:-1]
                parts, depth, cur = [], 0, []
                for c in a:
                    if c in "([{":
                        depth += 1
                    elif c in ")]}":
                        depth -= 1
                    if c == "," and depth == 0:
                        parts.append("".join(cur))
                        cur = []
                    else:
                        cur.append(c)
                parts.append("".join(cur))
                if len(parts) != 3:
                    raise Shape("fold_binary: arm pattern %s" % alt)
                op = parts[0].replace("BinOp::", "")
                rules.append("mkFrule %s %s %s %s (%s)" % (COQ_BINOP.get(op, op), pat_of(parts[1]), pat_of(parts[2]), guard, act))
        phases.append(rules)

    # ---- fold_unary ------------------------------------------------------------------------------
    ubody = fn_body(src, "fold_unary")
    ub = find_matches(ubody, r"\(\s*&op\s*,\s*&inner\s*\)")
    if len(ub) != 1:
        raise Shape("fold_unary: expected one match on (&op, &inner)")
    s, e, uinner = ub[0]
    usk = norm(ubody[:s] + "<M>" + ubody[e:])
    uarms = split_arms(uinner)
    if usk == "<M>":
        direct = True
        if norm(uarms[-1][0]) != "_" or norm(uarms[-1][1]) != REBUILD_UN:
            raise Shape("fold_unary: last arm %s => %s" % uarms[-1])
    elif usk == "let folded=<M>;match folded{Some(expr)=>expr,None=>" + REBUILD_UN + "}":
        direct = False
        if norm(uarms[-1][0]) != "_" or norm(uarms[-1][1]) != "None":
            raise Shape("fold_unary: last arm %s => %s" % uarms[-1])
    else:
        raise Shape("fold_unary: unrecognised function skeleton: %s" % usk)
    urules = []
    for pat, b in uarms[:-1]:
        p = norm(pat)
        nb = norm(unbrace(b))
        if p == "(UnaryOp::Neg,Expr::Int(a))":
            forms = ({"Expr::Int(-a)": "Raw", "Expr::Int(a.wrapping_neg())": "Wrapping"} if direct else
                     {"Some(Expr::Int(-a))": "Raw", "Some(Expr::Int(a.wrapping_neg()))": "Wrapping",
                      "a.checked_neg().map(Expr::Int)": "Checked"})
            if nb not in forms:
                raise Shape("fold_unary: Int arm %s" % nb)
            urules.append("(Neg, PIntAny, UAInt %s)" % forms[nb])
        elif p == "(UnaryOp::Neg,Expr::Float(a))":
            if nb != ("Expr::Float(-a)" if direct else "Some(Expr::Float(-a))"):
                raise Shape("fold_unary: Float arm %s" % nb)
            urules.append("(Neg, PFloatAny, UAFloat)")
        else:
            raise Shape("fold_unary: unrecognised arm %s" % pat)

    # ---- hand-modelled parts: digest against the committed shape ---------------------------------
    shape = {"fold_expr": digest(fn_body(src, "fold_expr")), "fold_arg": digest(fn_body(src, "fold_arg"))}
    if update:
        json.dump(shape, open(SHAPE, "w"), indent=1, sort_keys=True)
        open(SHAPE, "a").write("\n")
        print("shape file updated")
    else:
        want = json.load(open(SHAPE))
        diffs = [k for k in sorted(set(want) | set(shape)) if want.get(k) != shape.get(k)]
        if diffs:
            raise Shape("hand-modelled parts of optimize.rs differ from the committed shape (translate/fold_shape.json): " + ", ".join(diffs))

    lines = ["(* GENERATED by translate/fold_rules.py from %s -- do not edit. *)" % OPT,
             "From VP Require Import Base.Tactics Expr.Syntax.",
             "Local Open Scope Z_scope.", "",
             "Definition fold_phases : list (list frule) :=",
             "  [ " + ";\n    ".join("[ " + ";\n      ".join(r) + " ]" for r in phases) + " ].", "",
             "Definition fold_unary_rules : list (unop * lpat * uaction) := [ " + "; ".join(urules) + " ].", ""]
    text = "\n".join(lines)
    if not os.path.exists(OUT) or open(OUT).read() != text:
        open(OUT, "w").write(text)
    print("Gen_FoldRules.v: %d phase(s), %s binary rules, %d unary rules" % (len(phases), [len(p) for p in phases], len(urules)))


if __name__ == "__main__":
    try:
        main()
    except Shape as e:
        print("SHAPE: %s" % e)
        sys.exit(1)
