#!/usr/bin/env python3
"""T-tie for C08/C09: regenerate coq/theories/Cmp/Gen_EvalArms.v from the Rust source.

Extracted (and nothing else):
  * crates/varpulis-runtime/src/engine/evaluator.rs
      - eval_expr_with_functions, `Expr::Binary` block: operands are evaluated strictly
        (`let left_val = ...?; let right_val = ...?;`), then per `BinOp::{Lt,Le,Gt,Ge}` the list of
        `(Value::X(a), Value::Y(b)) => Some(Value::Bool(<how>))` arms; the shape of Eq / NotEq / And / Or.
      - eval_binary_op: the same arm lists for Lt Le Gt Ge, the shape of Eq / NotEq.
  * crates/varpulis-runtime/src/sase.rs
      - values_compare arms, compare_values (operator -> accepted orderings), values_equal arms.
Every recognised `<how>` is one of a closed list of shapes; anything else makes the translator exit
non-zero (fail closed => the check reports a broken tie).
"""
import os
import re
import sys

sys.path.insert(0, os.path.dirname(os.path.dirname(os.path.abspath(__file__))))
from vplib.common import REPO, COQ  # noqa: E402

EVAL = "crates/varpulis-runtime/src/engine/evaluator.rs"
SASE = "crates/varpulis-runtime/src/sase.rs"


class Shape(Exception):
    pass


def strip_comments(src):
    src = re.sub(r"//[^\n]*", "", src)
    return re.sub(r"/\*.*?\*/", "", src, flags=re.S)


def block_after(text, start):
    """text[start] must be '{' ; returns (inner, index after closing brace)"""
    assert text[start] == "{", text[start:start + 30]
    depth = 0
    i = start
    while i < len(text):
        c = text[i]
        if c == '"':
            i += 1
            while text[i] != '"':
                i += 2 if text[i] == "\\" else 1
        elif c == "'" and re.match(r"'(\\.|[^\\'])'", text[i:]):
            i += len(re.match(r"'(\\.|[^\\'])'", text[i:]).group(0)) - 1
        elif c == "{":
            depth += 1
        elif c == "}":
            depth -= 1
            if depth == 0:
                return text[start + 1:i], i + 1
        i += 1
    raise Shape("unbalanced braces")


def fn_body(src, name):
    m = re.search(r"\bfn\s+%s\s*(<[^>]*>)?\s*\(" % re.escape(name), src)
    if not m:
        raise Shape("function %s not found" % name)
    i = src.index("{", m.end())
    # skip to the body brace: the first '{' after the closing ')' of the parameter list / return type
    depth = 0
    j = m.end() - 1
    while True:
        if src[j] == "(":
            depth += 1
        elif src[j] == ")":
            depth -= 1
            if depth == 0:
                break
        j += 1
    i = src.index("{", j)
    return block_after(src, i)[0]


def split_arms(body):
    """split a match body into (pattern, guard, rhs) at depth-0 commas / closing braces of block arms"""
    arms = []
    i = 0
    n = len(body)
    while True:
        while i < n and body[i] in " \t\r\n,":
            i += 1
        if i >= n:
            break
        # pattern up to '=>' at depth 0
        depth = 0
        j = i
        while j < n:
            c = body[j]
            if c in "([{":
                depth += 1
            elif c in ")]}":
                depth -= 1
            elif depth == 0 and body.startswith("=>", j):
                break
            j += 1
        if j >= n:
            raise Shape("arm without => near: " + body[i:i + 60])
        pat = body[i:j].strip()
        k = j + 2
        while body[k] in " \t\r\n":
            k += 1
        if body[k] == "{":
            inner, end = block_after(body, k)
            rhs = "{" + inner + "}"
            i = end
        else:
            depth = 0
            e = k
            while e < n:
                c = body[e]
                if c in "([{":
                    depth += 1
                elif c in ")]}":
                    depth -= 1
                elif c == "," and depth == 0:
                    break
                e += 1
            rhs = body[k:e]
            i = e + 1
        guard = None
        mg = re.match(r"^(.*?)\s+if\s+(.*)$", pat, flags=re.S)
        if mg and not pat.startswith("if"):
            pat, guard = mg.group(1).strip(), mg.group(2).strip()
        arms.append((pat, guard, rhs.strip()))
    return arms


def squash(s):
    """drop whitespace and rustfmt's trailing commas before a closing bracket"""
    return re.sub(r",([)\]}])", r"\1", re.sub(r"\s+", "", s))


def match_on(body, scrutinee_re):
    m = re.search(r"match\s+" + scrutinee_re + r"\s*\{", body)
    if not m:
        raise Shape("no `match %s`" % scrutinee_re)
    return block_after(body, m.end() - 1)[0]


TY = {"Int": "TInt", "Float": "TFloat", "Str": "TStr", "Bool": "TBool", "Null": "TNull"}
REL = {"<": "RLt", "<=": "RLe", ">": "RGt", ">=": "RGe"}
ISREL = {"is_lt": "RLt", "is_le": "RLe", "is_gt": "RGt", "is_ge": "RGe"}


def pair_pattern(pat):
    """`(Value::Int(a), Value::Float(b))` -> ("Int","a","Float","b")"""
    m = re.match(r"^\(\s*Value::(\w+)\((\w+)\)\s*,\s*Value::(\w+)\((\w+)\)\s*\)$", pat)
    if not m:
        raise Shape("unrecognised operand pattern: " + pat)
    return m.group(1), m.group(2), m.group(3), m.group(4)


def classify_cmp(expr, lt, lv, rt, rv):
    """shape of the boolean inside Some(Value::Bool(..)) for an ordering arm"""
    s = squash(expr).replace("*", "").replace("&", "")
    ops = r"(<=|>=|<|>)"
    m = re.match(r"^(\w+)%s(\w+)$" % ops, s)
    if m and (m.group(1), m.group(3)) == (lv, rv) and lt == rt and lt in ("Int", "Float", "Str"):
        return "CDirect %s" % REL[m.group(2)]
    m = re.match(r"^\(?\(?(\w+)asf64\)?\)?%s(\w+)$" % ops, s)
    if m and (m.group(1), m.group(3)) == (lv, rv) and (lt, rt) == ("Int", "Float"):
        return "CCastL %s" % REL[m.group(2)]
    m = re.match(r"^(\w+)%s\(?(\w+)asf64\)?$" % ops, s)
    if m and (m.group(1), m.group(3)) == (lv, rv) and (lt, rt) == ("Float", "Int"):
        return "CCastR %s" % REL[m.group(2)]
    m = re.match(r"^cmp_int_float\((\w+),(\w+)\)\.is_some_and\((?:std::cmp::)?Ordering::(is_\w+)\)$", s)
    if m and m.group(3) in ISREL:
        if (m.group(1), m.group(2)) == (lv, rv) and (lt, rt) == ("Int", "Float"):
            return "CExactL %s" % ISREL[m.group(3)]
        if (m.group(1), m.group(2)) == (rv, lv) and (lt, rt) == ("Float", "Int"):
            return "CExactR %s" % ISREL[m.group(3)]
    raise Shape("unrecognised comparison arm (%s,%s): %s" % (lt, rt, expr))


def cmp_arms(match_body, fn, op):
    rows = []
    arms = split_arms(match_body)
    if not arms or squash(arms[-1][0]) != "_" or squash(arms[-1][2]) != "None":
        raise Shape("%s %s: last arm is not `_ => None`" % (fn, op))
    for pat, guard, rhs in arms[:-1]:
        if guard is not None:
            raise Shape("%s %s: guarded arm %s if %s" % (fn, op, pat, guard))
        lt, lv, rt, rv = pair_pattern(pat)
        m = re.match(r"^Some\(Value::Bool\((.*)\)\)$", squash(rhs))
        if not m:
            raise Shape("%s %s: arm result is not Some(Value::Bool(..)): %s" % (fn, op, rhs))
        inner = m.group(1)
        if lt not in TY or rt not in TY:
            raise Shape("%s %s: operand type %s/%s" % (fn, op, lt, rt))
        rows.append("mkArm %s O%s %s %s (%s)" % (fn, op, TY[lt], TY[rt], classify_cmp(inner, lt, lv, rt, rv)))
    return rows


def top_arms(body, scrutinee):
    return {squash(p): (g, r) for p, g, r in split_arms(match_on(body, scrutinee))}


def eq_how(op, rhs, l, r, amp):
    """shape of the Eq / NotEq arm: Value equality, the numeric helper, or unknown"""
    if rhs is None:
        return "EQUnknown"
    if op == "Eq":
        if rhs == "Some(Value::Bool(%s==%s))" % (l, r):
            return "EQValue"
        if rhs == "Some(Value::Bool(values_eq(%s%s,%s%s)))" % (amp, l, amp, r):
            return "EQNumeric"
    else:
        if rhs == "Some(Value::Bool(%s!=%s))" % (l, r):
            return "EQValue"
        if rhs == "Some(Value::Bool(!values_eq(%s%s,%s%s)))" % (amp, l, amp, r):
            return "EQNumeric"
    return "EQUnknown"


VALUES_EQ_BODY = ("match(left,right){(Value::Int(i),Value::Float(f))|(Value::Float(f),Value::Int(i))=>"
                  "{cmp_int_float(*i,*f)==Some(Ordering::Equal)}_=>left==right}")


def check_values_eq(src):
    body = squash(fn_body(src, "values_eq")).replace("std::cmp::", "")
    if body != VALUES_EQ_BODY:
        raise Shape("values_eq is not `Int/Float => cmp_int_float(i, f) == Some(Equal), _ => left == right`: " + body[:200])


def extract_evaluator(src):
    rows = []
    facts = {}
    hows = {}
    # ---- eval_expr_with_functions / Expr::Binary
    body = fn_body(src, "eval_expr_with_functions")
    m = re.search(r"Expr::Binary\s*\{\s*op\s*,\s*left\s*,\s*right\s*\}\s*=>\s*\{", body)
    if not m:
        raise Shape("Expr::Binary arm not found in eval_expr_with_functions")
    blk = block_after(body, m.end() - 1)[0]
    sq = squash(blk)
    for side in ("left", "right"):
        want = "let%s_val=eval_expr_with_functions(%s,event,ctx,functions,bindings)?;" % (side, side)
        if want not in sq:
            raise Shape("Expr::Binary: operand `%s` is not evaluated strictly with `?`" % side)
    if not sq.startswith("letleft_val=") or "letright_val=" not in sq[:sq.index("matchop{")]:
        raise Shape("Expr::Binary: operands are not both evaluated before `match op`")
    arms = top_arms(blk, "op")
    for op in ("Lt", "Le", "Gt", "Ge"):
        g, rhs = arms.get("BinOp::" + op, (None, None))
        if rhs is None or g is not None:
            raise Shape("eval_expr_with_functions: no plain BinOp::%s arm" % op)
        rows += cmp_arms(match_on(rhs, r"\(\s*&left_val\s*,\s*&right_val\s*\)"), "FExpr", op)
    for op, name in (("Eq", "expr_eq_how"), ("NotEq", "expr_ne_how")):
        g, rhs = arms.get("BinOp::" + op, (None, None))
        hows[name] = eq_how(op, None if (rhs is None or g is not None) else squash(rhs), "left_val", "right_val", "&")
    for op, tok, name in (("And", "&&", "expr_and_strict"), ("Or", "||", "expr_or_strict")):
        g, rhs = arms.get("BinOp::" + op, (None, None))
        facts[name] = rhs is not None and g is None and squash(rhs) == \
            "{leta=left_val.as_bool()?;letb=right_val.as_bool()?;Some(Value::Bool(a%sb))}" % tok
    # unary not
    mu = re.search(r"UnaryOp::Not\s*=>\s*match\s+val\s*\{", body)
    facts["expr_not_bool_only"] = False
    if mu:
        ua = split_arms(block_after(body, mu.end() - 1)[0])
        facts["expr_not_bool_only"] = [(squash(p), g, squash(r)) for p, g, r in ua] == \
            [("Value::Bool(b)", None, "Some(Value::Bool(!b))"), ("_", None, "None")]
    # ---- eval_binary_op
    body = fn_body(src, "eval_binary_op")
    arms = top_arms(body, "op")
    for op in ("Lt", "Le", "Gt", "Ge"):
        g, rhs = arms.get("BinOp::" + op, (None, None))
        if rhs is None or g is not None:
            raise Shape("eval_binary_op: no plain BinOp::%s arm" % op)
        rows += cmp_arms(match_on(rhs, r"\(\s*left\s*,\s*right\s*\)"), "FBinop", op)
    for op, name in (("Eq", "binop_eq_how"), ("NotEq", "binop_ne_how")):
        g, rhs = arms.get("BinOp::" + op, (None, None))
        hows[name] = eq_how(op, None if (rhs is None or g is not None) else squash(rhs), "left", "right", "")
    if "EQNumeric" in hows.values():
        check_values_eq(src)
    return rows, facts, hows


def extract_sase(src):
    # ---- values_compare
    vc = []
    arms = split_arms(match_on(fn_body(src, "values_compare"), r"\(\s*left\s*,\s*right\s*\)"))
    if squash(arms[-1][0]) != "_" or squash(arms[-1][2]) != "None":
        raise Shape("values_compare: last arm is not `_ => None`")
    for pat, guard, rhs in arms[:-1]:
        if guard is not None:
            raise Shape("values_compare: guarded arm")
        lt, lv, rt, rv = pair_pattern(pat)
        s = squash(rhs).replace("*", "").replace("&", "").replace("std::cmp::", "")
        if s == "Some(%s.cmp(%s))" % (lv, rv) and lt == rt == "Int":
            how = "VCIntCmp"
        elif s == "Some(%s.cmp(%s))" % (lv, rv) and lt == rt == "Str":
            how = "VCStrCmp"
        elif s == "%s.partial_cmp(%s)" % (lv, rv) and lt == rt == "Float":
            how = "VCFloatPartial"
        elif s == "(%sasf64).partial_cmp(%s)" % (lv, rv) and (lt, rt) == ("Int", "Float"):
            how = "VCCastL"
        elif s == "%s.partial_cmp((%sasf64))" % (lv, rv) and (lt, rt) == ("Float", "Int"):
            how = "VCCastR"
        elif s == "cmp_int_float(%s,%s)" % (lv, rv) and (lt, rt) == ("Int", "Float"):
            how = "VCExactL"
        elif s == "cmp_int_float(%s,%s).map(Ordering::reverse)" % (rv, lv) and (lt, rt) == ("Float", "Int"):
            how = "VCExactRRev"
        else:
            raise Shape("values_compare: unrecognised arm %s => %s" % (pat, rhs))
        vc.append("(%s, %s, %s)" % (TY[lt], TY[rt], how))
    # ---- compare_values
    cv = []
    arms = {squash(p): (g, squash(r).replace("std::cmp::", "")) for p, g, r in split_arms(match_on(fn_body(src, "compare_values"), "op"))}
    ORD = {"Less": "Lt", "Equal": "Eq", "Greater": "Gt"}
    for op in ("Eq", "NotEq", "Lt", "Le", "Gt", "Ge"):
        g, rhs = arms.get("CompareOp::" + op, (None, None))
        if rhs is None or g is not None:
            raise Shape("compare_values: no CompareOp::%s arm" % op)
        if rhs == "values_equal(left,right)":
            how = "CVEqual"
        elif rhs == "!values_equal(left,right)":
            how = "CVNotEqual"
        else:
            m = re.match(r"^values_compare\(left,right\)==Some\(Ordering::(\w+)\)$", rhs) or \
                re.match(r"^matches!\(values_compare\(left,right\),Some\(((?:Ordering::\w+\|?)+)\)\)$", rhs)
            if not m:
                raise Shape("compare_values: unrecognised arm for %s: %s" % (op, rhs))
            names = re.findall(r"(?:Ordering::)?(\w+)", m.group(1))
            names = [x for x in names if x != "Ordering"]
            if any(x not in ORD for x in names):
                raise Shape("compare_values: ordering names %s" % names)
            how = "CVOrd [%s]" % "; ".join(ORD[x] for x in names)
        cv.append("(O%s, %s)" % (op, how))
    # ---- values_equal
    body = fn_body(src, "values_equal")
    if squash(body) == "left==right":
        ve = "VEValueEqAll"
    elif squash(body) == "values_eq(left,right)":
        ve = "VENumericAll"
    else:
        rows = []
        arms = split_arms(match_on(body, r"\(\s*left\s*,\s*right\s*\)"))
        if squash(arms[-1][0]) != "_" or squash(arms[-1][2]) != "false":
            raise Shape("values_equal: last arm is not `_ => false`")
        for pat, guard, rhs in arms[:-1]:
            if guard is not None:
                raise Shape("values_equal: guarded arm")
            s = squash(rhs).replace("*", "").replace("&", "")
            if s.startswith("{") and s.endswith("}"):
                s = s[1:-1]
            for alt in [a.strip() for a in re.split(r"\)\s*\|\s*\(", pat)]:
                alt = alt if alt.startswith("(") else "(" + alt
                alt = alt if alt.endswith("))") else alt + ")"
                lt, lv, rt, rv = pair_pattern(alt)
                if s == "%s==%s" % (lv, rv) and lt == rt and lt in ("Int", "Str", "Bool"):
                    how = "VEDirectEq"
                elif s == "(%s-%s).abs()<f64::EPSILON" % (lv, rv) and lt == rt == "Float":
                    how = "VEFloatEps"
                elif (lt, rt) in (("Int", "Float"), ("Float", "Int")):
                    iv, fv = (lv, rv) if lt == "Int" else (rv, lv)
                    if s == "(%sasf64-%s).abs()<f64::EPSILON" % (iv, fv):
                        how = "VEMixedEps"
                    else:
                        raise Shape("values_equal: unrecognised mixed arm %s => %s" % (pat, rhs))
                else:
                    raise Shape("values_equal: unrecognised arm %s => %s" % (pat, rhs))
                rows.append("(%s, %s, %s)" % (TY[lt], TY[rt], how))
        ve = "VEArms [%s]" % "; ".join(rows)
    return vc, cv, ve


def ve_is_numeric(sa):
    return squash(fn_body(sa, "values_equal")) == "values_eq(left,right)"


def generate(repo=REPO):
    ev = strip_comments(open(os.path.join(repo, EVAL)).read())
    sa = strip_comments(open(os.path.join(repo, SASE)).read())
    rows, facts, hows = extract_evaluator(ev)
    if ve_is_numeric(sa):
        check_values_eq(ev)
    vc, cv, ve = extract_sase(sa)
    has_helper = bool(re.search(r"\bfn\s+cmp_int_float\s*\(", ev + sa))
    uses_helper = any("CExact" in r for r in rows) or any("VCExact" in r for r in vc)
    if uses_helper and not has_helper:
        raise Shape("arms call cmp_int_float but no such function is defined in evaluator.rs / sase.rs")
    out = ["(* GENERATED by translate/eval_arms.py from %s and %s on every run -- do not edit. *)" % (EVAL, SASE),
           "From VP Require Import Base.Tactics Cmp.Arms.", "",
           "Definition eval_arms : list arm := ["]
    out.append(";\n".join("  " + r for r in rows))
    out.append("].")
    out.append("")
    out.append("Definition vc_arms : list (vty * vty * vchow) := [%s]." % "; ".join(vc))
    out.append("Definition cv_arms : list (cop * cvhow) := [%s]." % "; ".join(cv))
    out.append("Definition ve_body : vebody := %s." % ve)
    for k in sorted(facts):
        out.append("Definition %s : bool := %s." % (k, "true" if facts[k] else "false"))
    for k in sorted(hows):
        out.append("Definition %s : eqhow := %s." % (k, hows[k]))
    facts = dict(facts, **hows)
    return "\n".join(out) + "\n", {"arms": len(rows), "vc": len(vc), "cv": len(cv), "facts": facts}


def main():
    try:
        text, info = generate()
    except Shape as e:
        print("eval_arms: source shape not recognised: %s" % e)
        return 1
    path = os.path.join(COQ, "theories", "Cmp", "Gen_EvalArms.v")
    if not os.path.exists(path) or open(path).read() != text:
        open(path, "w").write(text)
    print("eval_arms: %(arms)d evaluator arms, %(vc)d values_compare arms, %(cv)d compare_values arms; %(facts)s" % info)
    return 0


if __name__ == "__main__":
    sys.exit(main())
