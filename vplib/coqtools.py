"""Coq side: building targets, auditing theorems, evaluating model cases by vm_compute."""
import concurrent.futures
import fcntl
import glob
import os
import re
import shutil

from .common import COQ, CACHE, VERIF, sh, log

BANNED = re.compile(
    r"\b(Admitted|admit|give_up|Axiom|Axioms|Parameter|Parameters|Conjecture|Conjectures|"
    r"Admit\s+Obligations|bypass_check|native_compute|native_cast_no_check)\b|"
    r"Unset\s+Guard|Unset\s+Positivity|Unset\s+Universe|type-in-type|impredicative-set")

STD_AXIOM_ALLOW = {
    # standard-library axioms that may appear; each check names the ones it allows
    "ClassicalDedekindReals.sig_not_dec", "ClassicalDedekindReals.sig_forall_dec",
    "FunctionalExtensionality.functional_extensionality_dep", "functional_extensionality_dep",
    "Classical_Prop.classic", "classic", "sig_not_dec", "sig_forall_dec",
    "Eqdep.Eq_rect_eq.eq_rect_eq", "JMeq.JMeq_eq", "ProofIrrelevance.proof_irrelevance",
}


def strip_comments(src):
    out = []
    depth = 0
    i = 0
    n = len(src)
    instr = False
    while i < n:
        c = src[i]
        if depth == 0 and c == '"':
            instr = not instr
            out.append(c)
            i += 1
            continue
        if not instr and src.startswith("(*", i):
            depth += 1
            i += 2
            continue
        if not instr and depth > 0 and src.startswith("*)", i):
            depth -= 1
            i += 2
            continue
        if depth == 0:
            out.append(c)
        elif c == "\n":
            out.append(c)
        i += 1
    return "".join(out)


def all_v_files():
    fs = sorted(glob.glob(os.path.join(COQ, "theories", "**", "*.v"), recursive=True))
    return fs


def banned_scan(paths=None):
    """Returns list of (file, line, text) for banned constructs outside comments/strings."""
    hits = []
    for f in (paths or all_v_files() + sorted(glob.glob(os.path.join(COQ, "audit", "*.v")))):
        src = strip_comments(open(f).read())
        # blank out string literals
        src = re.sub(r'"[^"]*"', '""', src)
        for ln, line in enumerate(src.split("\n"), 1):
            if BANNED.search(line):
                hits.append((os.path.relpath(f, VERIF), ln, line.strip()))
    return hits


class CoqLock:
    def __enter__(self):
        os.makedirs(CACHE, exist_ok=True)
        self.f = open(os.path.join(CACHE, "coq.lock"), "w")
        fcntl.flock(self.f, fcntl.LOCK_EX)
        return self

    def __exit__(self, *a):
        fcntl.flock(self.f, fcntl.LOCK_UN)
        self.f.close()


def write_coqproject():
    files = [os.path.relpath(f, COQ) for f in all_v_files()]
    body = "-Q theories VP\n-arg -w -arg -notation-overridden,-deprecated-hint-without-locality,-deprecated-instance-without-locality\n" + "\n".join(files) + "\n"
    p = os.path.join(COQ, "_CoqProject")
    if not os.path.exists(p) or open(p).read() != body:
        open(p, "w").write(body)
        return True
    return False


_DEP_CACHE = {}


def _deps(vrel):
    """direct .v dependencies (inside theories/) of a .v file, via coqdep"""
    st = os.stat(os.path.join(COQ, vrel)).st_mtime
    if vrel in _DEP_CACHE and _DEP_CACHE[vrel][0] == st:
        return _DEP_CACHE[vrel][1]
    p = sh(["coqdep", "-Q", "theories", "VP", vrel], cwd=COQ, timeout=120)
    deps = []
    for line in p.stdout.split("\n"):
        if ":" in line and line.split(":")[0].split()[0].endswith(".vo"):
            for tok in line.split(":", 1)[1].split():
                if tok.endswith(".vo") and tok.startswith("theories/"):
                    d = tok[:-1]
                    if d != vrel:
                        deps.append(d)
            break
    _DEP_CACHE[vrel] = (st, deps)
    return deps


class _FileLock:
    def __init__(self, name):
        os.makedirs(os.path.join(CACHE, "locks"), exist_ok=True)
        self.path = os.path.join(CACHE, "locks", name.replace("/", "__") + ".lock")

    def __enter__(self):
        self.f = open(self.path, "w")
        fcntl.flock(self.f, fcntl.LOCK_EX)

    def __exit__(self, *a):
        fcntl.flock(self.f, fcntl.LOCK_UN)
        self.f.close()


COQ_FLAGS = ["-Q", "theories", "VP", "-w", "-notation-overridden,-deprecated-hint-without-locality,-deprecated-instance-without-locality"]


def _build_one(vrel, timeout, logs, done):
    """Build theories/X/Y.v -> .vo (full coqc, never -vos) after its dependencies. Returns mtime of .vo or None."""
    if vrel in done:
        return done[vrel]
    newest_dep = 0.0
    for d in _deps(vrel):
        m = _build_one(d, timeout, logs, done)
        if m is None:
            done[vrel] = None
            return None
        newest_dep = max(newest_dep, m)
    v = os.path.join(COQ, vrel)
    vo = v + "o"
    with _FileLock(vrel):
        stale = (not os.path.exists(vo)) or os.stat(vo).st_mtime < os.stat(v).st_mtime or os.stat(vo).st_mtime < newest_dep
        if stale:
            p = sh(["timeout", str(timeout), "coqc"] + COQ_FLAGS + [vrel], cwd=COQ, timeout=timeout + 30)
            logs.append("COQC %s%s" % (vrel, "" if p.returncode == 0 else " FAILED (rc %s)" % p.returncode))
            if p.returncode != 0:
                logs.append(p.stdout[-3000:] + p.stderr[-3000:])
                if os.path.exists(vo):
                    os.remove(vo)
                done[vrel] = None
                return None
    done[vrel] = os.stat(vo).st_mtime
    return done[vrel]


def make(targets, timeout=1800, jobs=16):
    """Build .vo targets (paths relative to coq/, e.g. theories/Zdd/Props.vo) with their dependencies.
    Full .vo builds only; per-file locks make concurrent checks safe. Returns (ok, log)."""
    write_coqproject()
    logs = []
    done = {}
    ok = True
    if len(targets) > 4 and jobs > 1:
        with concurrent.futures.ThreadPoolExecutor(max_workers=jobs) as ex:
            res = list(ex.map(lambda t: _build_one(t[:-1] if t.endswith(".vo") else t, timeout, logs, {}), targets))
        ok = all(r is not None for r in res)
    else:
        for t in targets:
            if _build_one(t[:-1] if t.endswith(".vo") else t, timeout, logs, done) is None:
                ok = False
    return ok, "\n".join(logs)


def audit(audit_file, allow_axioms=(), timeout=2400):
    """Compile coq/audit/<file> (Check pins + Print Assumptions). Returns dict:
    ok, n_print (number of Print Assumptions answered), axioms (set), log"""
    path = os.path.join(COQ, "audit", audit_file)
    src = strip_comments(open(path).read())
    n_expected = len(re.findall(r"\bPrint\s+Assumptions\b", src))
    n_pins = len(re.findall(r"^\s*Check\b", src, re.M))
    tmpd = os.path.join(CACHE, "audit")
    os.makedirs(tmpd, exist_ok=True)
    tmp = os.path.join(tmpd, audit_file)
    shutil.copy(path, tmp)
    p = sh(["timeout", str(timeout), "coqc", "-noglob", "-Q", os.path.join(COQ, "theories"), "VP", tmp], cwd=tmpd, timeout=timeout + 30)
    out = p.stdout
    axioms = set()
    n_closed = len(re.findall(r"Closed under the global context", out))
    n_ax_blocks = 0
    inax = False
    lines = out.split("\n")
    for k, line in enumerate(lines):
        if line.startswith("Axioms:"):
            inax = True
            n_ax_blocks += 1
            continue
        if inax:
            m = re.match(r"^([A-Za-z_][\w.']*)\s*:", line)
            m2 = re.match(r"^([A-Za-z_][\w.']*)\s*$", line)
            if m:
                axioms.add(m.group(1))
            elif m2 and k + 1 < len(lines) and re.match(r"^\s+:", lines[k + 1]):
                axioms.add(m2.group(1))      # name alone on its line, type on the next
            elif line.startswith(" ") or line.strip() == "":
                continue
            else:
                inax = False
    names = re.findall(r"\bPrint\s+Assumptions\s+([\w.']+?)\s*\.", src)
    bad = sorted(a for a in axioms if a not in set(allow_axioms))
    ok = p.returncode == 0 and (n_closed + n_ax_blocks) == n_expected and not bad
    return {"ok": ok, "returncode": p.returncode, "n_print": n_closed + n_ax_blocks, "n_expected": n_expected,
            "n_pins": n_pins, "theorems": names, "axioms": axioms, "bad_axioms": bad, "log": (p.stdout[-3000:] + p.stderr[-3000:])}


HEADER = "Set Printing Width 10000000.\n"   # default Printing Depth: a huge depth makes the printer several times slower; results are strings (one token)


def _run_shard(args):
    path, timeout = args
    # a shard that times out on a loaded machine is retried with a longer limit: a timeout is not a disagreement
    for t in (timeout, 3 * timeout):
        # vm_compute of a deeply recursive model function (e.g. enumeration over 2^12 combinations) needs more
        # than the default 8 MB C stack
        p = sh(["bash", "-c", 'ulimit -s unlimited 2>/dev/null || ulimit -s 4000000 2>/dev/null; exec timeout "$0" coqc -noglob -Q "$1" VP "$2"',
                str(t), os.path.join(COQ, "theories"), path],
               cwd=os.path.dirname(path), timeout=t + 30)
        if p.returncode != 124:
            break
    return path, p.returncode, p.stdout, p.stderr


def coq_eval(tag, imports, exprs, shard=200, timeout=900, prelude=""):
    """Evaluate Gallina expressions of type string by vm_compute, in parallel shards.
    Returns list of python strings (same order). Raises RuntimeError on a coqc failure."""
    # one directory per process: two runs of checks that share a tag must not clobber each other's case files
    d = os.path.join(CACHE, "cases", "%s-%d" % (tag, os.getpid()))
    shutil.rmtree(d, ignore_errors=True)
    os.makedirs(d, exist_ok=True)
    shards = []
    for k in range(0, len(exprs), shard):
        path = os.path.join(d, "c%04d.v" % (k // shard))
        with open(path, "w") as f:
            f.write(imports + "\n" + HEADER + prelude + "\n")
            for e in exprs[k:k + shard]:
                f.write("Eval vm_compute in (%s).\n" % e)
        shards.append(path)
    results = {}
    with concurrent.futures.ThreadPoolExecutor(max_workers=16) as ex:
        for path, rc, out, err in ex.map(_run_shard, [(s, timeout) for s in shards]):
            if rc != 0:
                raise RuntimeError("coqc failed on %s: %s %s" % (path, out[-2000:], err[-2000:]))
            results[path] = parse_eval_strings(out)
    res = []
    for k, s in enumerate(shards):
        n = min(shard, len(exprs) - k * shard)
        if len(results[s]) != n:
            raise RuntimeError("shard %s: expected %d results, got %d" % (s, n, len(results[s])))
        res.extend(results[s])
    shutil.rmtree(d, ignore_errors=True)      # kept only when an evaluation failed
    return res


def parse_eval_strings(out):
    """Each Eval of type string prints `     = "..."` then `     : string`."""
    res = []
    cur = None
    for line in out.split("\n"):
        if line.startswith("     = "):
            cur = line[7:]
        elif line.startswith("     : "):
            if cur is not None:
                s = cur.strip()
                if s.endswith("%string"):
                    s = s[:-7]
                if s.startswith('"') and s.endswith('"'):
                    s = s[1:-1].replace('""', '"')
                res.append(s)
                cur = None
        elif cur is not None:
            cur += "\n" + line
    return res


# ---- Gallina literal printers ------------------------------------------
def g_Z(n):
    return "(%d)%%Z" % n


def g_N(n):
    assert n >= 0
    return "%d%%N" % n


def g_nat(n):
    assert 0 <= n < 5000
    return "%d%%nat" % n


def g_bool(b):
    return "true" if b else "false"


def g_list(xs, f=str):
    return "[" + "; ".join(f(x) for x in xs) + "]"


def g_opt(x, f=str):
    return "None" if x is None else "(Some %s)" % f(x)


def g_str(s):
    assert all(32 <= ord(c) < 127 for c in s), s
    return '"%s"%%string' % s.replace('"', '""')


def prove(run, targets, audit_file, allow_axioms=()):
    """Standard proof obligations of a check: banned-construct scan, full build of the
    targets, audit (statement pins + Print Assumptions) -- one obligation per audited theorem."""
    hits = banned_scan()
    run.oblige("no Admitted/admit/Axiom/Parameter/guard-off anywhere in coq/", not hits, str(hits[:5]))
    ok, lg = make(targets)
    run.oblige("coqc (full .vo) " + " ".join(targets), ok, lg[-3000:])
    run.checker_cmd = "coqc 8.16.1 (full .vo, via vplib/coqtools.make) %s; coqc coq/audit/%s" % (" ".join(targets), audit_file)
    if not ok:
        return False
    a = audit(audit_file, allow_axioms=allow_axioms)
    run.axioms |= a["axioms"]
    if a["ok"]:
        for n in a["theorems"]:
            run.oblige("theorem %s: statement pinned (Check) and assumptions within the allow-list" % n, True)
    else:
        run.oblige("audit %s (%d Check pins, %d/%d Print Assumptions answered, disallowed axioms %s)" % (
            audit_file, a["n_pins"], a["n_print"], a["n_expected"], a["bad_axioms"]), False, a["log"])
    run.extra["theorems_audited"] = a["theorems"]
    return a["ok"]
