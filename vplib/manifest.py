"""vpc manifest: regenerate MANIFEST.json from checks/Cxx.py META + properties.jsonl."""
import glob
import importlib
import json
import os

from .common import VERIF

NOT_APPLICABLE_FILE = os.path.join(VERIF, "not_applicable.json")


def main():
    props = [json.loads(l) for l in open(os.path.join(VERIF, "properties.jsonl"))]
    checks = []
    claimed = set()
    for p in props:
        pid = p["id"]
        if not os.path.exists(os.path.join(VERIF, "checks", pid + ".py")):
            continue
        mod = importlib.import_module("checks." + pid)
        meta = getattr(mod, "META", {})
        if meta.get("disabled"):
            continue
        claimed.add(pid)
        checks.append({
            "property_id": pid,
            "quick_cmd": "bin/vpc check %s --tier quick" % pid,
            "thorough_cmd": "bin/vpc check %s --tier thorough" % pid,
            "evidence_file": "/verif/evidence/%s.json" % pid,
            "replay_cmd_template": "bin/vpc check %s --replay {path}" % pid,
            "engine": "coq-model+differential",
            "level_claimed": {
                "category": "proof",
                "text": meta.get("level_text", "Coq theorems about an executable model, tied to the code by a differential correspondence run on every check"),
                "design_ref": meta.get("design_ref", "DESIGN.md §7"),
            },
            "level_note": meta.get("level_note", "trusted: Coq kernel + vm_compute, the hand-written model (tied by differential testing), the Rust harness and Python driver"),
            "technique": meta.get("technique", "machine-checked proof in Coq + model/implementation correspondence"),
        })
    na = []
    reasons = json.load(open(NOT_APPLICABLE_FILE)) if os.path.exists(NOT_APPLICABLE_FILE) else {}
    for p in props:
        if p["id"] not in claimed:
            na.append({"property_id": p["id"], "reason": reasons.get(p["id"], "no Coq model and correspondence check has been built for this property yet (planned in DESIGN.md §7); nothing is claimed")})
    hooks_commits = []
    hp = os.path.join(VERIF, "hooks.json")
    if os.path.exists(hp):
        hooks_commits = json.load(open(hp))["source_commits"]
    man = {
        "version": 1,
        "setup_cmd": "bin/vpc setup",
        "hooks": {
            "guard": "--cfg varpulis_verif",
            "enable": "RUSTFLAGS=\"--cfg varpulis_verif\" (set by vplib/harness.py for every harness build); hooks are additions under #[cfg(varpulis_verif)] except the three clock hooks, which route existing Instant::now() calls through a function that is Instant::now() when the guard is off",
            "baseline_off_cmd": "cd /repo && cargo nextest run --workspace --no-fail-fast --test-threads 8 --offline",
            "source_commits": hooks_commits,
            "add_only": False,
        },
        "engines": [{
            "name": "coq-model+differential",
            "path": "/verif/bin/vpc",
            "serves_properties": sorted(claimed),
            "kind_free_text": "Coq 8.16.1 development under coq/theories (models, proofs, pinned property theorems) + Rust harness workspace under harness/ linking /repo's crates by path + Python driver (generation, vm_compute evaluation of the model, diff, oracle, shrinking)",
        }],
        "checks": checks,
        "notes": "Every check rebuilds the harness from /repo's working tree and re-audits the Coq theorems. See DESIGN.md.",
        "not_applicable": na,
    }
    with open(os.path.join(VERIF, "MANIFEST.json"), "w") as f:
        json.dump(man, f, indent=1)
        f.write("\n")
    print("MANIFEST.json: %d checks, %d not_applicable" % (len(checks), len(na)))
    return 0
