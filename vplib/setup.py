"""vpc setup: build every Coq theory (after running the translators) and every harness crate, offline."""
import glob
import os
import sys

from . import coqtools, harness
from .common import VERIF, COQ, log, sh


def run_translators():
    ok = True
    for t in sorted(glob.glob(os.path.join(VERIF, "translate", "*.py"))):
        if os.path.basename(t).startswith("_"):
            continue
        p = sh([sys.executable, t], cwd=VERIF, timeout=300)
        if p.returncode != 0:
            log("translator %s failed (tie broken at setup; the owning check will report it):\n%s" % (t, p.stdout[-2000:] + p.stderr[-2000:]))
            ok = False
    return ok


def main():
    run_translators()
    targets = [os.path.relpath(f, COQ)[:-2] + ".vo" for f in coqtools.all_v_files()]
    ok, lg = coqtools.make(targets, timeout=7200)
    log(lg[-3000:])
    if not ok:
        log("setup: Coq build failed")
        return 1
    rc = 0
    for d in sorted(glob.glob(os.path.join(VERIF, "harness", "crates", "*"))):
        name = None
        for line in open(os.path.join(d, "Cargo.toml")):
            if line.startswith("name"):
                name = line.split("=")[1].strip().strip('"')
                break
        feats = None
        okb, _, blog = harness.build(name)
        log("harness %s: %s" % (name, "ok" if okb else "FAILED"))
        if not okb:
            log(blog[-3000:])
            rc = 1
    return rc
