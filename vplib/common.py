"""Shared plumbing for the /verif checks: paths, PRNG, process helpers, reporting.

Every check is `bin/vpc check <Cxx> [--tier quick|thorough]` and goes through
`Run` below, which collects obligations, correspondence counts, violations and
known findings and writes evidence/<id>.json (schema: EVIDENCE.schema.json).
"""
import hashlib
import json
import os
import subprocess
import sys
import time

VERIF = os.path.dirname(os.path.dirname(os.path.abspath(__file__)))
REPO = os.environ.get("VERIF_REPO", "/repo")
CACHE = os.path.join(VERIF, ".cache")
COQ = os.path.join(VERIF, "coq")
GUARD_CFG = "varpulis_verif"


def log(*a):
    print(*a, flush=True)


class SplitMix64:
    """One PRNG state per run; every random choice derives from it."""

    def __init__(self, seed):
        self.s = seed & 0xFFFFFFFFFFFFFFFF

    def next(self):
        self.s = (self.s + 0x9E3779B97F4A7C15) & 0xFFFFFFFFFFFFFFFF
        z = self.s
        z = ((z ^ (z >> 30)) * 0xBF58476D1CE4E5B9) & 0xFFFFFFFFFFFFFFFF
        z = ((z ^ (z >> 27)) * 0x94D049BB133111EB) & 0xFFFFFFFFFFFFFFFF
        return z ^ (z >> 31)

    def below(self, n):
        return self.next() % n if n > 0 else 0

    def range(self, lo, hi):
        """inclusive"""
        return lo + self.below(hi - lo + 1)

    def chance(self, num, den):
        return self.below(den) < num

    def choice(self, xs):
        return xs[self.below(len(xs))]

    def shuffle(self, xs):
        xs = list(xs)
        for i in range(len(xs) - 1, 0, -1):
            j = self.below(i + 1)
            xs[i], xs[j] = xs[j], xs[i]
        return xs

    def subset(self, xs, num=1, den=2):
        return [x for x in xs if self.chance(num, den)]

    def fork(self):
        return SplitMix64(self.next())


def sh(cmd, cwd=None, timeout=None, env=None, input=None, check=False):
    e = dict(os.environ)
    e.setdefault("CARGO_NET_OFFLINE", "true")
    if env:
        e.update(env)
    p = subprocess.run(cmd, cwd=cwd, env=e, input=input, capture_output=True,
                       text=True, timeout=timeout, shell=isinstance(cmd, str))
    if check and p.returncode != 0:
        raise RuntimeError("command failed (%s): %s\n%s\n%s" % (p.returncode, cmd, p.stdout[-4000:], p.stderr[-4000:]))
    return p


def load_known_findings():
    p = os.path.join(VERIF, "known_findings.json")
    if not os.path.exists(p):
        return {"findings": [], "fixed": []}
    return json.load(open(p))


class Violation(Exception):
    pass


class Run:
    """Collects what one check run covered and turns it into evidence + exit code."""

    def __init__(self, pid, tier, seed):
        self.pid = pid
        self.tier = tier
        self.seed = seed
        self.t0 = time.time()
        self.rng = SplitMix64(seed ^ int(hashlib.sha256(pid.encode()).hexdigest()[:12], 16))
        self.obligations = []      # (name, ok, detail)
        self.axioms = set()
        self.trusted = []
        self.assumptions = []
        self.evaluations = 0
        self.nontrivial = set()
        self.samples = []
        self.hist = {}
        self.violations = []       # (what, replay_path)
        self.known_hits = []       # strings
        self.broken = []           # names of broken ties/obligations (no failing input yet)
        self.extra = {}
        self.rule = ""
        self.checker_cmd = ""
        kf = load_known_findings()
        self.known = [f for f in kf.get("findings", []) if f.get("property") == pid]

    # ---- bookkeeping -------------------------------------------------
    def oblige(self, name, ok, detail=""):
        self.obligations.append((name, bool(ok), detail))
        if not ok:
            log("OBLIGATION-BROKEN %s: %s" % (name, detail[:2000]))
            self.broken.append(name)

    def count(self, key, n=1):
        self.hist[key] = self.hist.get(key, 0) + n

    def case(self, nontrivial_key=None, sample=None):
        self.evaluations += 1
        if nontrivial_key is not None:
            self.nontrivial.add(nontrivial_key)
        if sample is not None and len(self.samples) < 5:
            self.samples.append(sample)

    def tie_broken(self, name, detail=""):
        log("TIE-BROKEN %s: %s" % (name, detail[:3000]))
        self.broken.append(name)

    # ---- violations --------------------------------------------------
    def match_known(self, classes):
        """classes: iterable of known-finding class ids this failing input belongs to."""
        ids = {f["class"] for f in self.known}
        return [c for c in classes if c in ids]

    def violation(self, what, replay_obj, classes=()):
        """Report a concrete failing input. If it falls in a listed known-finding
        class it becomes a KNOWN-FINDING line instead."""
        hit = self.match_known(classes)
        if hit:
            for c in hit:
                desc = next(f["what"] for f in self.known if f["class"] == c)
                line = "KNOWN-FINDING: property=%s %s [class %s]" % (self.pid, desc, c)
                if line not in self.known_hits:
                    self.known_hits.append(line)
            return False
        os.makedirs(os.path.join(VERIF, "replays"), exist_ok=True)
        body = json.dumps({"property": self.pid, "what": what, "replay": replay_obj,
                           "seed": self.seed, "tier": self.tier}, indent=1, sort_keys=True, default=str)
        h = hashlib.sha256(body.encode()).hexdigest()[:12]
        path = os.path.join(VERIF, "replays", "%s-%s.json" % (self.pid, h))
        open(path, "w").write(body)
        self.violations.append((what, path))
        return True

    # ---- finish ------------------------------------------------------
    def finish(self):
        # A broken obligation / tie without any concrete failing input is still a violation.
        suffix_lines = []
        if self.broken and not self.violations:
            os.makedirs(os.path.join(VERIF, "replays"), exist_ok=True)
            body = json.dumps({"property": self.pid, "no_failing_input_found": True,
                               "broken": self.broken,
                               "explanation": "these theorems / correspondences no longer check against /repo's working tree; "
                                              "the search over the model and the implementation found no concrete input on which the property fails",
                               "seed": self.seed, "tier": self.tier}, indent=1)
            h = hashlib.sha256(body.encode()).hexdigest()[:12]
            path = os.path.join(VERIF, "replays", "%s-broken-%s.json" % (self.pid, h))
            open(path, "w").write(body)
            suffix_lines.append("VIOLATION property=%s replay=%s no-failing-input-found" % (self.pid, path))
        nob = len(self.obligations)
        ndis = sum(1 for o in self.obligations if o[1])
        cov = {
            "obligations": nob,
            "discharged": ndis,
            "checker_cmd": self.checker_cmd,
            "trusted_base": self.trusted + sorted("axiom (Print Assumptions): " + a for a in self.axioms),
            "obligation_names": [o[0] for o in self.obligations],
            "evaluations": self.evaluations,
            "distinct_nontrivial": len(self.nontrivial),
            "rule": self.rule,
            "samples": self.samples if self.samples else [o[0] for o in self.obligations[:3]],
            "input_distribution": self.hist,
            "known_findings_reconfirmed": self.known_hits,
            "broken": self.broken,
        }
        cov.update(self.extra)
        ev = {
            "property_id": self.pid,
            "tier": self.tier,
            "seed": self.seed,
            "level": "proof",
            "coverage": cov,
            "assumptions": self.assumptions,
            "wall_s": round(time.time() - self.t0, 2),
            "violations": len(self.violations) + len(suffix_lines),
        }
        os.makedirs(os.path.join(VERIF, "evidence"), exist_ok=True)
        with open(os.path.join(VERIF, "evidence", self.pid + ".json"), "w") as f:
            json.dump(ev, f, indent=1, sort_keys=True, default=str)
            f.write("\n")
        for l in self.known_hits:
            log(l)
        for what, path in self.violations:
            log("VIOLATION property=%s replay=%s" % (self.pid, path))
            log("  (" + what[:500] + ")")
        for l in suffix_lines:
            log(l)
        if self.violations or suffix_lines:
            return 1
        log("PASS %s tier=%s obligations=%d/%d evaluations=%d nontrivial=%d wall=%.1fs" % (
            self.pid, self.tier, ndis, nob, self.evaluations, len(self.nontrivial), time.time() - self.t0))
        return 0
