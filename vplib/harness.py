"""Rust side: build a harness crate against the repository's working tree and run it.

The harness workspace lives in /verif/harness (members: harness/crates/*), every
member links /repo's crates by path, Cargo.lock is copied from /repo on every
build, and the build is offline with RUSTFLAGS="--cfg varpulis_verif".
When VERIF_REPO points somewhere else (scratch worktree for testing a seeded
change) a path-rewritten copy of the workspace is built under .cache/.
"""
import fcntl
import hashlib
import json
import os
import shutil

from .common import VERIF, CACHE, REPO, GUARD_CFG, sh, log


def _workspace_for_repo():
    src = os.path.join(VERIF, "harness")
    if os.path.realpath(REPO) == "/repo":
        return src, os.path.join(CACHE, "target")
    key = hashlib.sha256(os.path.realpath(REPO).encode()).hexdigest()[:10]
    dst = os.path.join(CACHE, "harness-" + key)
    if os.path.exists(dst):
        shutil.rmtree(dst)
    shutil.copytree(src, dst, ignore=shutil.ignore_patterns("target", "Cargo.lock"))
    for root, _, files in os.walk(dst):
        for f in files:
            if f == "Cargo.toml":
                p = os.path.join(root, f)
                s = open(p).read().replace('"/repo/', '"%s/' % os.path.realpath(REPO))
                open(p, "w").write(s)
    return dst, os.path.join(CACHE, "target-" + key)


def build(package, profile="debug", features=None, timeout=3000):
    """cargo build -p <package>; returns (ok, bin_dir, log)"""
    ws, target = _workspace_for_repo()
    os.makedirs(CACHE, exist_ok=True)
    with open(os.path.join(CACHE, "cargo-%s.lock" % os.path.basename(target)), "w") as lf:
        fcntl.flock(lf, fcntl.LOCK_EX)
        lock_src = os.path.join(REPO, "Cargo.lock")
        lock_dst = os.path.join(ws, "Cargo.lock")
        # seed the lock file from the repository's so that offline resolution picks cached versions
        if not os.path.exists(lock_dst):
            shutil.copy(lock_src, lock_dst)
        cmd = ["cargo", "build", "--offline", "-p", package]
        if profile == "release":
            cmd.append("--release")
        if features:
            cmd += ["--features", ",".join(features)]
        env = {"CARGO_TARGET_DIR": target, "RUSTFLAGS": "--cfg %s" % GUARD_CFG, "CARGO_NET_OFFLINE": "true"}
        p = sh(cmd, cwd=ws, env=env, timeout=timeout)
        if p.returncode != 0 and any(w in (p.stderr or "") for w in ("Cargo.lock", "failed to select a version", "is yanked")):
            shutil.copy(lock_src, lock_dst)
            p = sh(cmd, cwd=ws, env=env, timeout=timeout)
    return p.returncode == 0, os.path.join(target, profile), (p.stdout + p.stderr)


def run_jsonl(bin_path, requests, args=(), timeout=1200, env=None):
    """Send one JSON request per line on stdin, read one JSON answer per line."""
    inp = "\n".join(json.dumps(r, separators=(",", ":")) for r in requests) + "\n"
    p = sh([bin_path] + list(args), input=inp, timeout=timeout, env=env)
    if p.returncode != 0:
        raise RuntimeError("harness %s exited %s: %s" % (bin_path, p.returncode, p.stderr[-3000:]))
    outs = [json.loads(l) for l in p.stdout.split("\n") if l.strip()]
    if len(outs) != len(requests):
        raise RuntimeError("harness %s: %d answers for %d requests; stderr: %s" % (bin_path, len(outs), len(requests), p.stderr[-2000:]))
    return outs
